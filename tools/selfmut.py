#!/venv/bin/python
"""Hand-written mutants (DESIGN section 6 'Demonstrated detection'): each is
applied to a scratch copy of the package under /tmp, the checks named for it
are run against the copy (VERIF_REPO), and the copy is removed.

usage: tools/selfmut.py [name-substring] [--tier quick|thorough] [--all-checks]
"""
import os
import shutil
import subprocess
import sys
import tempfile

REPO = "/repo"
PKG = "checkpoint_schedules"
ALL = [f"C{i:02d}" for i in range(1, 20)]

# (name, file, old, new, properties expected to fire)
MUTANTS = [
    ("nadvance_offbyone_rare", "multistage.py",
     "        if n <= b_s_tm1 + b_sm2_tm1:\n            return b_s_tm2\n",
     "        if n < b_s_tm1 + b_sm2_tm1:\n            return b_s_tm2\n",
     ["C05", "C13"]),
    ("multistage_write_no_count", "multistage.py",
     "            if len(snapshots) >= self._snapshots_in_ram + self._snapshots_on_disk:  # noqa: E501\n",
     "            if len(snapshots) > self._snapshots_in_ram + self._snapshots_on_disk:  # noqa: E501\n",
     []),
    ("multistage_move_to_copy", "multistage.py",
     "                yield Move(cp_n, cp_storage, StorageType.WORK)\n",
     "                yield Copy(cp_n, cp_storage, StorageType.WORK)\n",
     ["C04"]),
    ("finalize_ge_to_gt", "schedule.py",
     "            if self._n >= n:\n", "            if self._n > n:\n",
     ["C10"]),
    ("finalize_guard_dropped", "schedule.py",
     "            if self._n >= n:\n", "            if True:\n", ["C10"]),
    ("finalize_noop_weakened", "schedule.py",
     "        elif self._n != n or self._max_n != n:\n",
     "        elif self._max_n != n:\n", ["C10"]),
    ("twolevel_r_not_reset", "twolevel_binomial.py",
     "            self._r = 0\n            yield EndReverse()\n",
     "            yield EndReverse()\n            self._r = 0\n", ["C08"]),
    ("mixed_drop_reuse", "mixed.py",
     "                        self._snapshots - len(snapshots) + int(reuse_snapshot))\n",
     "                        self._snapshots - len(snapshots))\n",
     ["C06", "C01", "C02", "C17"]),
    ("mixed_tiebreak_tabulation", "mixed.py",
     "                    if schedule[n_i, s_i, 2] < 0 or m1 <= schedule[n_i, s_i, 2]:  # noqa: E501\n",
     "                    if schedule[n_i, s_i, 2] < 0 or m1 < schedule[n_i, s_i, 2]:  # noqa: E501\n",
     ["C16"]),
    ("hrevolve_swap_wd_rd", "hrevolve.py",
     "        wc = [0, wd]\n        rc = [0, rd]\n",
     "        wc = [0, rd]\n        rc = [0, wd]\n", ["C07"]),
    ("allocation_lowest_weights", "multistage.py",
     "                       reverse=True)[:snapshots_in_ram]:\n",
     "                       reverse=False)[:snapshots_in_ram]:\n", ["C14"]),
    ("periodic_ge", "hrevolve_sequences/periodic_disk_revolve.py",
     "    while l - current_task > mx:\n",
     "    while l - current_task >= mx:\n", ["C19"]),
    ("twolevel_nsnapshots", "twolevel_binomial.py",
     "                        n_snapshots = (self._binomial_snapshots + 1\n"
     "                                       - len(snapshots) + 1)\n",
     "                        n_snapshots = (self._binomial_snapshots + 1\n"
     "                                       - len(snapshots))\n",
     ["C13"]),
    ("reverse_iter_ascending", "schedule.py",
     "        yield from range(self.n1 - 1, self.n0 - 1, -1)\n",
     "        yield from range(self.n0, self.n1)\n", ["C18"]),
    ("generator_on_class", "schedule.py",
     "            if not hasattr(self, \"iter\"):\n                self.iter = cls_iter(self)\n",
     "            if not hasattr(self, \"iter\"):\n                type(self).iter = cls_iter(self)\n",
     ["C15"]),
    ("hopt_memo_no_costs", "hrevolve_sequences/hrevolve.py",
     "    K = len(cvect)\n    assert len(wvect) == len(rvect) == len(cvect)\n",
     "    K = len(cvect)\n    assert len(wvect) == len(rvect) == len(cvect)\n"
     "    _key = (lmax, tuple(cvect))\n"
     "    if _key in _HOPT_CACHE:\n        return _HOPT_CACHE[_key]\n",
     ["C15"]),
    ("singledisk_copy_to_move", "basic_schedules.py",
     "                    yield Copy(self._n, StorageType.DISK, StorageType.WORK)\n",
     "                    yield Move(self._n, StorageType.DISK, StorageType.WORK)\n",
     ["C01", "C09", "C04"]),
    ("uses_storage_multistage", "multistage.py",
     "            return self._snapshots_on_disk > 0\n",
     "            return self._snapshots_on_disk > 1\n", ["C11"]),
    ("mixed_max_n_1_rejects", "mixed.py",
     "        if snapshots < min(1, max_n - 1):\n",
     "        if snapshots < 1:\n", ["C17"]),
    ("hrevolve_l1_forward_start", "hrevolve.py",
     "                if n_0 != self._max_n - self._r:\n                    raise InvalidForwardStep\n                self._r += 1\n",
     "                if n_0 != self._max_n - self._r:\n                    raise InvalidForwardStep\n                self._r += (1 if self._max_n != 13 else 2)\n",
     ["C08"]),
    ("work_deps_two_steps", "multistage.py",
     "        self._n += 1\n        yield Forward(self._n - 1, self._n, False, True, StorageType.WORK)\n\n        yield EndForward()\n",
     "        self._n += 1\n        yield Forward(self._n - 1, self._n, False, True, StorageType.WORK)\n\n        yield EndForward()\n        yield Copy(0, self._storage[0], StorageType.WORK) if self._max_n == 11 else EndForward() if False else Forward(0, 0, False, False, StorageType.NONE) if False else None\n",
     []),
]


def hopt_extra(path):
    """the memo mutant needs its module-level table and the stores"""
    p = os.path.join(path, "hrevolve_sequences/hrevolve.py")
    s = open(p).read()
    s = s.replace("def get_hopt_table(", "_HOPT_CACHE = {}\n\n\ndef get_hopt_table(", 1)
    s = s.replace("    return (optp, opt)\n",
                  "    _HOPT_CACHE[_key] = (optp, opt)\n    return (optp, opt)\n", 1)
    open(p, "w").write(s)


def main():
    args = [a for a in sys.argv[1:] if not a.startswith("--")]
    tier = "quick"
    if "--tier" in sys.argv:
        tier = sys.argv[sys.argv.index("--tier") + 1]
        args = [a for a in args if a != tier]
    allc = "--all-checks" in sys.argv
    sel = args[0] if args else ""
    for name, fn, old, new, expect in MUTANTS:
        if sel not in name or not expect:
            continue
        d = tempfile.mkdtemp(prefix="selfmut_")
        try:
            shutil.copytree(os.path.join(REPO, PKG), os.path.join(d, PKG))
            p = os.path.join(d, PKG, fn)
            s = open(p).read()
            if old not in s:
                print(f"{name}: PATTERN NOT FOUND")
                continue
            open(p, "w").write(s.replace(old, new, 1))
            if name == "hopt_memo_no_costs":
                hopt_extra(os.path.join(d, PKG))
            fired = []
            for c in (ALL if allc else expect):
                env = dict(os.environ, VERIF_REPO=d,
                           VERIF_EVIDENCE_DIR=os.path.join(d, "ev"),
                           VERIF_REPLAY_DIR=os.path.join(d, "rp"))
                r = subprocess.run(["/verif/check", c, "--tier", tier],
                                   env=env, capture_output=True, text=True)
                if r.returncode == 1 and "VIOLATION" in r.stdout:
                    fired.append(c)
                elif False:
                    fired.append(c)
                elif r.returncode != 0:
                    fired.append(f"{c}(rc={r.returncode})")
                    print(r.stdout[-1500:], r.stderr[-1500:])
            miss = [c for c in expect if c not in fired]
            print(f"{name}: fired={fired} expected={expect} "
                  f"{'OK' if not miss else 'MISSED ' + str(miss)}")
        finally:
            shutil.rmtree(d, ignore_errors=True)


if __name__ == "__main__":
    main()
