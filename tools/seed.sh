#!/bin/bash
# tools/seed.sh <id> <property> <agent-worktree> [checks...]
# Confirms a seeded change independently and runs the checks against it.
id=$1; prop=$2; wt=$3; shift; shift; shift
checks=${@:-C01 C02 C03 C04 C05 C06 C07 C08 C09 C10 C11 C12 C13 C14 C15 C16 C17 C18 C19}
sd=/verif/seeded/$id
mkdir -p $sd
git -C $wt diff > $sd/patch.diff
cp $wt/demo.py $sd/demo.py
[ -f $wt/MUTATION.md ] && cp $wt/MUTATION.md $sd/MUTATION.md
if [ ! -s $sd/patch.diff ]; then echo "EMPTY PATCH"; exit 1; fi
# --- independent confirmation in a scratch worktree
v=/tmp/vfy/$id
rm -rf $v; mkdir -p /tmp/vfy
git -C /repo worktree add -q --detach $v HEAD
git -C $v apply $sd/patch.diff || { echo "PATCH DOES NOT APPLY"; git -C /repo worktree remove --force $v; exit 1; }
cp $sd/demo.py $v/demo.py
suite=$(cd $v && /venv/bin/python -m pytest -q -p no:cacheprovider -n 8 tests 2>&1 | tail -1)
(cd $v && PYTHONPATH=$v timeout 900 /venv/bin/python demo.py > /tmp/vfy/$id.demo_mut.log 2>&1); rc_mut=$?
git -C $v checkout -q -- .
(cd $v && PYTHONPATH=$v timeout 900 /venv/bin/python demo.py > /tmp/vfy/$id.demo_orig.log 2>&1); rc_orig=$?
git -C /repo worktree remove --force $v
echo "suite: $suite"
echo "demo with change rc=$rc_mut ; without rc=$rc_orig"
# --- checks against /repo with the change applied
git -C /repo apply $sd/patch.diff || { echo "DOES NOT APPLY TO /repo"; exit 1; }
out=$(mktemp -d /tmp/seedrun.XXXXXX)
fired=""
cd ${VERIF_HOME:-/verif}
for p in $checks; do
  VERIF_EVIDENCE_DIR=$out/ev VERIF_REPLAY_DIR=$out/rp timeout 3600 ./check $p --tier quick > $out/$p.log 2>&1
  rc=$?
  if [ $rc -ne 0 ]; then fired="$fired $p(rc=$rc)"; fi
done
git -C /repo checkout -- .
git -C /repo status --short | head -3
echo "fired:$fired"
first=$(grep -h -m1 -A1 '^VIOLATION' $out/$prop.log | tail -1 | cut -c1-400)
echo "target $prop: $first"
/venv/bin/python - "$id" "$prop" "$suite" "$rc_mut" "$rc_orig" "$fired" "$first" "$checks" <<'PY'
import json, sys
id_, prop, suite, rc_mut, rc_orig, fired, first, checks = sys.argv[1:9]
meta = {
 "id": id_, "breaks_property": prop,
 "needs_to_manifest": "see MUTATION.md",
 "confirmed": {
   "suite_with_change": suite.strip(),
   "demo_exit_with_change": int(rc_mut), "demo_exit_without_change": int(rc_orig),
   "how": "fresh scratch worktree of /repo HEAD under /tmp/vfy, patch.diff applied, full suite with pytest -n 8, demo.py run with and without the change, worktree removed"},
 "checks_run": ("quick checks " + " ".join(checks.split()) + " (all 19)" * (len(checks.split()) == 19)
                + " against /repo with patch.diff applied (git -C /repo apply), then git -C /repo checkout -- ."),
 "checks_fired": fired.split(),
 "target_check_detail": first.strip(),
}
json.dump(meta, open(f"/verif/seeded/{id_}/meta.json", "w"), indent=1)
PY
rm -rf $out
