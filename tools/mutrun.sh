#!/bin/bash
# tools/mutrun.sh <tree-with-mutation> [tier] [props...]
# Runs the checks against a mutated copy of the repository (VERIF_REPO),
# with evidence/replays redirected to a scratch directory, and prints one
# line per property: rc and the first VIOLATION line.
tree=$1; tier=${2:-quick}; shift; shift
props=${@:-C01 C02 C03 C04 C05 C06 C07 C08 C09 C10 C11 C12 C13 C14 C15 C16 C17 C18 C19}
out=$(mktemp -d /tmp/mutrun.XXXXXX)
cd ${VERIF_HOME:-/verif}
for p in $props; do
  VERIF_REPO=$tree VERIF_EVIDENCE_DIR=$out/ev VERIF_REPLAY_DIR=$out/rp timeout 3600 ./check $p --tier $tier > $out/$p.log 2>&1
  rc=$?
  echo "$p rc=$rc $(grep -m1 -A1 '^VIOLATION\|^HARNESS' $out/$p.log | tr '\n' ' ' | cut -c1-300)"
done
echo "logs: $out"
