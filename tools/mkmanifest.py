import json
props=[json.loads(l) for l in open('/verif/properties.jsonl')]
import sys
sys.path.insert(0,'/verif')
from vf import manifest_data as MD
checks=[]
for p in props:
    pid=p['id']
    if pid in MD.CHECKS:
        d=MD.CHECKS[pid]
        checks.append({
          "property_id":pid,
          "quick_cmd":f"./check {pid} --tier quick",
          "thorough_cmd":f"./check {pid} --tier thorough",
          "evidence_file":f"/verif/evidence/{pid}.json",
          "replay_cmd_template":f"./check {pid} --replay {{path}}",
          "engine":d["engine"],
          "level_claimed":{"category":"model_checking","text":d["text"],"design_ref":d["ref"]},
          "level_note":d["note"],
          "technique":d["technique"],
        })
na=[{"property_id":p['id'],"reason":MD.NA.get(p['id'],"check not built yet (work in progress); will be claimed once its explorer exists")} for p in props if p['id'] not in MD.CHECKS]
m={"version":1,
 "setup_cmd":"./check selftest",
 "hooks":{"guard":"CHECKPOINT_SCHEDULES_VERIF","enable":"no source hooks: checks import /repo's working tree directly (VERIF_REPO=/repo first on sys.path) and observe it through the public API, generator frames and module globals","baseline_off_cmd":"cd /repo && /venv/bin/python -m pytest -ra -q -p no:cacheprovider --timeout=900 --continue-on-collection-errors","source_commits":[],"add_only":True},
 "engines":MD.ENGINES,
 "checks":checks,
 "notes":MD.NOTES,
 "not_applicable":na}
json.dump(m,open('/verif/MANIFEST.json','w'),indent=1)
print(len(checks),'checks',len(na),'n/a')
