#!/bin/bash
# tools/detect_all.sh : regression of detection power. For every seeded change, a scratch worktree of
# /repo HEAD is created under /tmp, patch.diff applied, the target property's quick check run against it
# (VERIF_REPO), and the worktree removed. Writes seeded/detection_matrix.json.
cd /verif
out=/verif/seeded/detection_matrix.json
tmp=$(mktemp -d /tmp/detall.XXXXXX)
run_one() {
  id=$1; prop=${id%?}
  wt=/tmp/detall_wt_$id
  git -C /repo worktree add -q --detach $wt HEAD 2>/dev/null
  if git -C $wt apply /verif/seeded/$id/patch.diff 2>/dev/null; then
    tier=quick
    grep -q '"thorough_tier"' /verif/seeded/$id/meta.json 2>/dev/null && tier=thorough
    # a change whose own property's check does not drive the needed history (races, aborted calls)
    alt=$(/venv/bin/python -c "import json;print(json.load(open('/verif/seeded/$id/meta.json')).get('detect_with',''))")
    [ -n "$alt" ] && prop=$alt
    VERIF_REPO=$wt VERIF_EVIDENCE_DIR=$2/ev_$id VERIF_REPLAY_DIR=$2/rp_$id timeout 3000 ./check $prop --tier $tier > $2/$id.log 2>&1
    rc=$?
    first=$(grep -m1 -A1 '^VIOLATION' $2/$id.log | tail -1 | cut -c1-260 | sed 's/"/\\"/g')
    echo "{\"id\": \"$id\", \"property\": \"$prop\", \"tier\": \"$tier\", \"rc\": $rc, \"first\": \"$first\"}" > $2/$id.json
  else
    echo "{\"id\": \"$id\", \"property\": \"$prop\", \"rc\": -1, \"first\": \"patch does not apply\"}" > $2/$id.json
  fi
  git -C /repo worktree remove --force $wt 2>/dev/null
}
export -f run_one
ls /verif/seeded | grep -E '^C[0-9]{2}[a-z]$' | xargs -P 3 -I{} bash -c "run_one {} $tmp"
/venv/bin/python - $tmp $out <<'PY'
import json,glob,sys
rows=[json.load(open(f)) for f in sorted(glob.glob(sys.argv[1]+'/C*.json'))]
json.dump(rows,open(sys.argv[2],'w'),indent=1)
ooa=[]
for r in rows:
    m=json.load(open(f"/verif/seeded/{r['id']}/meta.json"))
    if m.get('out_of_alphabet'):
        r['out_of_alphabet']=m['out_of_alphabet']; ooa.append(r['id'])
json.dump(rows,open(sys.argv[2],'w'),indent=1)
bad=[r['id'] for r in rows if r['rc']!=1 and r['id'] not in ooa]
surprise=[r['id'] for r in rows if r['rc']!=0 and r['id'] in ooa]
print(len(rows),'seeded changes;', len(rows)-len(bad)-len(ooa),'detected (own property check, or the one named in detect_with);',
      len(ooa),'outside the alphabet by decision (expected silent):',ooa,'; NOT detected:',bad,'; out-of-alphabet but not silent:',surprise)
PY
rm -rf $tmp
