#!/venv/bin/python
"""A reduced, single-process battery over all nineteen properties, used by
tools/mutsweep.py to screen many mutants cheaply (about 10 s each on one
core).  It re-uses the oracles of the real checks on small bounds and prints
one line:  BATTERY <killed|survived> <property tags / first finding>.

It is a screening device only: survivors are re-examined with the registered
quick checks.
"""
import os
import sys
import time

HERE = os.path.dirname(os.path.dirname(os.path.abspath(__file__)))
sys.path.insert(0, HERE)
os.environ.setdefault("VERIF_JOBS", "1")

from vf import common  # noqa: E402
from vf import driver as D  # noqa: E402
from vf import refs  # noqa: E402


def main():
    t0 = time.time()
    findings = []          # (prop tags, text)

    def add(tags, text):
        findings.append((tuple(tags), text))

    # ---- streams: small box, all guard tags at once
    from vf import props_c18, props_stream
    cfgs = D.box(8, "quick") + [c for c in D.box_large("quick")
                                if c.N in (257,) or c.np or c.passes > 100]
    fwd = {}
    costs = {}
    for cfg in cfgs:
        run = D.drive(cfg)
        if run.machine is None:
            add(["C17"], f"{cfg!r}: construction {run.construct_exc}")
            continue
        for f in run.all_failures()[:2]:
            add(f.props, f"{cfg!r}: [{f.code}] {f.msg}")
        sd = props_stream.suite_disagreement(run)
        if sd:
            add(["HARNESS"], f"{cfg!r}: suite executor: {sd}")
        seen = set()
        for a in run.actions:
            k = repr(a)
            if k in seen:
                continue
            seen.add(k)
            wf = props_c18.wellformed(a)
            if wf:
                add(["C18"], f"{cfg!r}: {a!r}: {wf[0]}")
                break
        M = run.machine
        fwd[cfg.key()] = M.fwd_steps
        if cfg.cls in D.REVOLVE_FAMILY and M.phase == D.DONE:
            from fractions import Fraction as F
            cv = [F(x) for x in D.costs_of(cfg)]
            costs[cfg.key()] = (cv[0] * M.fwd_steps + cv[1] * M.rev_steps
                                + cv[2] * M.disk_writes + cv[3] * M.disk_loads)
        if len(findings) > 40:
            break
    # ---- optimality against the reference recurrences (no search here)
    rr = {}
    for cfg in cfgs:
        if cfg.key() not in fwd or cfg.N > 8 or cfg.np:
            continue
        n = cfg.N
        if cfg.cls == "Multistage" and sum(cfg.params[:2]) >= 1:
            w = refs.binomial_total_steps(n, sum(cfg.params[:2]))
            if fwd[cfg.key()] != w:
                add(["C05"], f"{cfg!r}: {fwd[cfg.key()]} steps, optimum {w}")
        elif cfg.cls == "Mixed" and (cfg.params[0] >= 1 or n == 1):
            w = refs.mixed_total_steps(n, max(cfg.params[0], 1)) if n > 1 else 1
            if fwd[cfg.key()] != w:
                add(["C06"], f"{cfg!r}: {fwd[cfg.key()]} steps, optimum {w}")
        elif cfg.cls in D.REVOLVE_FAMILY and cfg.key() in costs:
            cv = D.costs_of(cfg)
            ram = cfg.params[0]
            disk = cfg.params[1] if cfg.cls == "HRevolve" else 0
            key = (ram, disk, cv)
            if key not in rr:
                rr[key] = refs.RevolveRefs(8, ram, disk, cv)
            R = rr[key]
            w = {"Revolve": R.revolve, "DiskRevolve": R.disk_revolve,
                 "HRevolve": R.hrevolve}.get(cfg.cls)
            if w is not None and costs[cfg.key()] != w(n):
                add(["C07"], f"{cfg!r}: cost {costs[cfg.key()]}, optimum {w(n)}")
            if cfg.cls == "Revolve":
                w5 = refs.binomial_total_steps(n, ram)
                if fwd[cfg.key()] != w5:
                    add(["C05"], f"{cfg!r}: {fwd[cfg.key()]} steps, optimum {w5}")
    # ---- published helpers and planner scans (screening only)
    if os.environ.get("BATTERY_DEEP"):
        ms = common.repo_mod("multistage")
        mxm = common.repo_mod("mixed")
        for n in range(1, 31):
            for s_ in range(1 if n > 1 else 0, n + 2):
                try:
                    g = ms.optimal_steps_binomial(n, s_)
                except Exception as e:  # noqa: BLE001
                    g = repr(e)
                w = refs.binomial_total_steps(n, max(s_, 1)) if n > 1 else 1
                if g != w:
                    add(["C05"], f"optimal_steps_binomial({n},{s_})={g} != {w}")
                try:
                    g = mxm.optimal_steps_mixed(n, s_)
                except Exception as e:  # noqa: BLE001
                    g = repr(e)
                w = refs.mixed_total_steps(n, max(s_, 1)) if n > 1 else 1
                if g != w:
                    add(["C06"], f"optimal_steps_mixed({n},{s_})={g} != {w}")
        from vf.props_opt import scan_n_advance
        bad, _ = scan_n_advance(NG=70, SG=70, NL=400, SL=3)
        for b in (bad or [])[:3]:
            add(["C05", "C13"], f"n_advance anomaly {b}")
        try:
            pm = common.repo_mod("hrevolve_sequences.periodic_disk_revolve")
            for cm in range(1, 40):
                for cv in D.COSTS_ALL[:20]:
                    g = int(pm.mxrr_close_formula(cm, cv[0], cv[3], cv[2]))
                    if g != refs.periodic_period(cm, cv):
                        add(["C19"], f"period({cm},{cv})={g}")
                        break
        except Exception as e:  # noqa: BLE001
            add(["C19"], f"period function raised {e!r}")
        extra = []
        deep2 = bool(os.environ.get("BATTERY_DEEP2"))
        for n in (range(9, 19) if deep2 else (9, 12, 17)):
            for ram in ((1, 2, 3, 4) if deep2 else (1, 2, 3)):
                for cv in (D.COSTS_QUICK if deep2 else
                           (D.COSTS_ALL[0], D.COSTS_ALL[5], D.COSTS_ALL[6],
                            D.COSTS_ALL[11], D.COSTS_ALL[16], D.COSTS_ALL[18])):
                    for c in ("Revolve", "DiskRevolve", "PeriodicDiskRevolve"):
                        extra.append(D.Config(c, (ram,) + cv, n))
                    for disk in ((0, 1, 2, 3) if deep2 else (1, 2)):
                        extra.append(D.Config("HRevolve", (ram, disk) + cv, n))
        from fractions import Fraction as F
        rr2 = {}
        for cfg in extra:
            run = D.drive(cfg)
            if run.machine is None:
                add(["C17"], f"{cfg!r}: construction {run.construct_exc}")
                continue
            for f in run.all_failures()[:1]:
                add(f.props, f"{cfg!r}: [{f.code}] {f.msg}")
            M = run.machine
            cv = D.costs_of(cfg)
            c = sum(F(a) * b for a, b in zip(cv, (M.fwd_steps, M.rev_steps,
                                                  M.disk_writes, M.disk_loads)))
            ram = cfg.params[0]
            disk = cfg.params[1] if cfg.cls == "HRevolve" else 0
            key = (ram, disk, cv)
            if key not in rr2:
                rr2[key] = refs.RevolveRefs(18, ram, disk, cv)
            w = {"Revolve": rr2[key].revolve, "DiskRevolve": rr2[key].disk_revolve,
                 "HRevolve": rr2[key].hrevolve}.get(cfg.cls)
            if w is not None and c != w(cfg.N):
                add(["C07"], f"{cfg!r}: cost {c}, optimum {w(cfg.N)}")
            if cfg.cls == "PeriodicDiskRevolve":
                code, msg, _, _ = __import__("vf.props_struct", fromlist=["x"]) \
                    .c19_eval(cfg, refs.periodic_period(ram, cv))
                if code:
                    add(["C19"], f"{cfg!r}: [{code}] {msg}")
    # ---- structure
    from vf import props_struct as PS
    for n in (4, 7, 10, 13):
        for period in (1, 2, 3, 5):
            for bs in (0, 1, 2):
                for traj in ("maximum", "revolve"):
                    cfg = D.Config("TwoLevel", (period, bs, "DISK", traj), n, 2)
                    code, msg, _, _ = PS.c13_eval(cfg, refs.binomial_total_steps)
                    if code:
                        add(["C13"], f"{cfg!r}: [{code}] {msg}")
    for n in range(2, 9):
        for s in range(1, n + 2):
            for traj in ("maximum", "revolve"):
                base = None
                for ram in range(0, s + 1):
                    cfg = D.Config("Multistage", (ram, s - ram, traj), n)
                    p = PS.c14_profile(cfg)
                    if p is None:
                        add(["C14", "C17"], f"{cfg!r}: no stream")
                        continue
                    if base is None:
                        base = p["erased"]
                    elif p["erased"] != base:
                        add(["C14"], f"{cfg!r}: split changes the stream")
                    if p["clash"]:
                        add(["C14"], f"{cfg!r}: {p['clash']}")
                    npos = (max(p["acc"]) + 1) if p["acc"] else 0
                    a = [p["acc"].get(d, 0) for d in range(npos)]
                    k = min(ram, npos)
                    dacc = sum(a[d] for d in range(npos)
                               if p["label"].get(d) == "DISK")
                    if dacc != sum(sorted(a)[:npos - k]) or \
                            sum(1 for v in p["label"].values()
                                if v == "RAM") > ram:
                        add(["C14"], f"{cfg!r}: disk traffic {dacc} not minimal")
    mixed = common.repo_mod("mixed")
    try:
        tab = mixed.mixed_steps_tabulation(14, 13)
        for ni in range(1, 15):
            for si in range(0, 14):
                t = tuple(int(x) for x in tab[ni, si])
                try:
                    m = tuple(int(x) for x in
                              mixed.mixed_step_memoization(ni, si))
                except ValueError:
                    m = None
                if (m is None and not (t[0] == 0 and t[2] < 0)) or \
                        (m is not None and t != m):
                    add(["C16"], f"table entry ({ni},{si}): {t} vs {m}")
    except Exception as e:  # noqa: BLE001
        add(["C16"], f"tabulation raised {e!r}")
    for n in (3, 6, 9):
        for s in (1, 2, 4):
            cfg = D.Config("Mixed", (s, "DISK"), n)
            r0 = PS.mixed_stream(cfg, False)
            r1 = PS.mixed_stream(cfg, True)
            if [PS.norm_action(a) for a in r0.actions] != \
                    [PS.norm_action(a) for a in r1.actions]:
                add(["C16"], f"{cfg!r}: streams differ between planners")
    for ram in (1, 2):
        for cv in (D.COSTS_ALL[0], D.COSTS_ALL[6], D.COSTS_ALL[14],
                   D.COSTS_ALL[16]):
            m = refs.periodic_period(ram, cv)
            for n in (2, 5, 9, 14, 23):
                cfg = D.Config("PeriodicDiskRevolve", (ram,) + cv, n)
                code, msg, _, _ = PS.c19_eval(cfg, m)
                if code:
                    add(["C19"], f"{cfg!r}: [{code}] {msg}")
    # ---- API histories
    from vf import history as H
    for cfg in H.spec_objects("quick"):
        if cfg.N > 10:
            continue
        o = H.explore(cfg, 6, check_continuations=False)
        for props, code, msg, hist in o["findings"][:2]:
            add(props, f"{cfg!r} {hist}: [{code}] {msg}")
    # ---- value objects
    res = common.Result("C18", "quick")
    props_c18.pair_laws(res)
    props_c18.alphabet_objects_laws(res)
    for v in res.violations[:2]:
        add(["C18"], v["detail"])
    # ---- domain boundary
    from vf import props_c17
    for cfg in props_c17.tuples(4):
        if cfg.N > 4 and cfg.cls != "TwoLevel":
            continue
        verdict, code, msg, _, _ = props_c17.evaluate(cfg, limit=20.0)
        if verdict == "bad":
            add(["C17"], f"{cfg!r}: [{code}] {msg}")
            if sum(1 for f in findings if "C17" in f[0]) > 3:
                break
    tags = sorted({t for f in findings for t in f[0]})
    if findings:
        print(f"BATTERY killed {','.join(tags)} :: {findings[0][1][:300]} "
              f"({len(findings)} findings, {time.time() - t0:.1f}s)")
        return 1
    print(f"BATTERY survived ({time.time() - t0:.1f}s)")
    return 0


if __name__ == "__main__":
    try:
        sys.exit(main())
    except Exception as e:  # noqa: BLE001
        import traceback
        traceback.print_exc()
        print(f"BATTERY killed CRASH :: harness or library crashed: {e!r}")
        sys.exit(3)
