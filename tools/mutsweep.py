#!/venv/bin/python
"""Systematic single-point mutation sweep of the library (detection power at
scale).  Every mutant is written to a scratch copy of the package under /tmp,
screened with tools/battery.py (VERIF_REPO=<copy>), and removed.

usage: tools/mutsweep.py OUT.jsonl [--limit N] [--files a.py,b.py]
"""
import ast
import copy
import json
import multiprocessing as mp
import os
import shutil
import subprocess
import sys
import tempfile

REPO = os.environ.get("MUTSWEEP_REPO", "/repo")
PKG = "checkpoint_schedules"
FILES = ["basic_schedules.py", "multistage.py", "mixed.py",
         "twolevel_binomial.py", "hrevolve.py", "schedule.py",
         "hrevolve_sequences/hrevolve.py", "hrevolve_sequences/revolve.py",
         "hrevolve_sequences/disk_revolve.py",
         "hrevolve_sequences/periodic_disk_revolve.py",
         "hrevolve_sequences/basic_functions.py"]
# functions that no public entry point reaches (mutants there are equivalent)
SKIP_FUNCS = {"compute_mmax", "rel_cost_x", "compute_mx", "mx_close_formula",
              "from_list_to_string", "__repr__", "cost", "canonical",
              "concat_sequence_hierarchic", "remove", "remove_last_discard",
              "first_operation", "next_operation", "convert_old_to_branch",
              "convert_new_to_branch", "set_to_print", "__del__"}

OPS2 = "--ops2" in sys.argv
CMP = {ast.Lt: ast.LtE, ast.LtE: ast.Lt, ast.Gt: ast.GtE, ast.GtE: ast.Gt,
       ast.Eq: ast.NotEq, ast.NotEq: ast.Eq}
BIN = {ast.Add: ast.Sub, ast.Sub: ast.Add}


def points(tree):
    """Enumerate (description, path-function) mutation points."""
    out = []

    class V(ast.NodeVisitor):
        def __init__(self):
            self.fn = []

        def visit_FunctionDef(self, node):
            if node.name in SKIP_FUNCS:
                return
            self.fn.append(node.name)
            self.generic_visit(node)
            self.fn.pop()

        def generic_visit(self, node):
            fn = ".".join(self.fn)
            if isinstance(node, ast.Compare):
                for i, op in enumerate(node.ops):
                    if type(op) in CMP:
                        out.append((node, ("cmp", i), fn))
            elif isinstance(node, ast.BinOp) and type(node.op) in BIN:
                out.append((node, ("bin",), fn))
            elif isinstance(node, ast.BoolOp):
                out.append((node, ("bool",), fn))
            elif isinstance(node, ast.Constant):
                if node.value is True or node.value is False:
                    out.append((node, ("flip",), fn))
                elif isinstance(node.value, int) and \
                        not isinstance(node.value, bool) and \
                        -3 <= node.value <= 4:
                    out.append((node, ("inc",), fn))
                    out.append((node, ("dec",), fn))
            elif isinstance(node, ast.UnaryOp) and isinstance(node.op, ast.Not):
                out.append((node, ("unnot",), fn))
            elif isinstance(node, ast.Name) and node.id in ("Move", "Copy") \
                    and isinstance(node.ctx, ast.Load):
                out.append((node, ("swapname",), fn))
            elif OPS2 and isinstance(node, ast.Name) and \
                    node.id in ("min", "max") and isinstance(node.ctx, ast.Load):
                out.append((node, ("minmax",), fn))
            elif OPS2 and isinstance(node, ast.Call) and len(node.args) >= 2 \
                    and not any(isinstance(a, ast.Starred) for a in node.args):
                out.append((node, ("swapargs",), fn))
            elif OPS2 and isinstance(node, ast.Subscript) and \
                    isinstance(node.slice, ast.UnaryOp) and \
                    isinstance(node.slice.op, ast.USub) and \
                    isinstance(node.slice.operand, ast.Constant) and \
                    node.slice.operand.value == 1:
                out.append((node, ("lastfirst",), fn))
            elif OPS2 and isinstance(node, ast.Compare) and False:
                pass
            elif isinstance(node, ast.Assign) and len(node.targets) == 1 and \
                    isinstance(node.targets[0], ast.Attribute) and \
                    isinstance(node.targets[0].value, ast.Name) and \
                    node.targets[0].value.id == "self" and self.fn and \
                    self.fn[-1] != "__init__":
                out.append((node, ("delassign",), fn))
            super().generic_visit(node)
    V().visit(tree)
    return out


def apply(node, how):
    k = how[0]
    if k == "cmp":
        node.ops[how[1]] = CMP[type(node.ops[how[1]])]()
    elif k == "bin":
        node.op = BIN[type(node.op)]()
    elif k == "bool":
        node.op = ast.Or() if isinstance(node.op, ast.And) else ast.And()
    elif k == "flip":
        node.value = not node.value
    elif k == "inc":
        node.value = node.value + 1
    elif k == "dec":
        node.value = node.value - 1
    elif k == "unnot":
        # replace `not x` by x: done by the caller through a transformer
        raise NotImplementedError
    elif k == "swapname":
        node.id = "Copy" if node.id == "Move" else "Move"
    elif k == "minmax":
        node.id = "max" if node.id == "min" else "min"
    elif k == "swapargs":
        node.args[0], node.args[1] = node.args[1], node.args[0]
    elif k == "lastfirst":
        node.slice = ast.Constant(0)
    elif k == "delassign":
        raise NotImplementedError


class Replace(ast.NodeTransformer):
    def __init__(self, target_idx, how):
        self.i = -1
        self.target_idx = target_idx
        self.how = how


def mutants_of(src):
    tree = ast.parse(src)
    pts = points(tree)
    res = []
    for idx in range(len(pts)):
        if OPS2 and pts[idx][1][0] not in ("minmax", "swapargs", "lastfirst"):
            continue
        t2 = ast.parse(src)
        p2 = points(t2)
        node, how, fn = p2[idx]
        desc = f"{how[0]}@{getattr(node, 'lineno', '?')} in {fn}"
        try:
            before = ast.unparse(node)[:80]
        except Exception:  # noqa: BLE001
            before = "?"
        if how[0] == "unnot":
            class T(ast.NodeTransformer):
                def visit_UnaryOp(self, n):
                    self.generic_visit(n)
                    if n is node:
                        return n.operand
                    return n
            t2 = T().visit(t2)
        elif how[0] == "delassign":
            class T(ast.NodeTransformer):
                def visit_Assign(self, n):
                    if n is node:
                        return ast.copy_location(ast.Pass(), n)
                    return n
            t2 = T().visit(t2)
        else:
            apply(node, how)
        ast.fix_missing_locations(t2)
        try:
            new = ast.unparse(t2)
        except Exception:  # noqa: BLE001
            continue
        res.append((desc, before, new))
    return res


def run_one(job):
    fn, desc, before, new_src = job
    d = tempfile.mkdtemp(prefix="mutsweep_")
    try:
        shutil.copytree(os.path.join(REPO, PKG), os.path.join(d, PKG))
        with open(os.path.join(d, PKG, fn), "w") as f:
            f.write(new_src)
        env = dict(os.environ, VERIF_REPO=d, VERIF_JOBS="1",
                   PYTHONDONTWRITEBYTECODE="1")
        try:
            r = subprocess.run(["/verif/tools/battery.py"], env=env,
                               capture_output=True, text=True, timeout=240)
            line = [x for x in r.stdout.splitlines() if x.startswith("BATTERY")]
            verdict = line[-1] if line else f"BATTERY killed CRASH :: rc={r.returncode} {r.stderr[-200:]}"
        except subprocess.TimeoutExpired:
            verdict = "BATTERY killed TIMEOUT :: no result within 240 s"
    finally:
        shutil.rmtree(d, ignore_errors=True)
    return {"file": fn, "mutation": desc, "before": before, "verdict": verdict}


def main():
    out = sys.argv[1]
    limit = None
    files = FILES
    if "--limit" in sys.argv:
        limit = int(sys.argv[sys.argv.index("--limit") + 1])
    if "--files" in sys.argv:
        files = sys.argv[sys.argv.index("--files") + 1].split(",")
    jobs = []
    for fn in files:
        src = open(os.path.join(REPO, PKG, fn)).read()
        for desc, before, new in mutants_of(src):
            jobs.append((fn, desc, before, new))
    if "--only-survivors-of" in sys.argv:
        prev = sys.argv[sys.argv.index("--only-survivors-of") + 1]
        keep = {(r["file"], r["mutation"]) for r in map(json.loads, open(prev))
                if "survived" in r["verdict"]}
        jobs = [j for j in jobs if (j[0], j[1]) in keep]
    if limit:
        step = max(1, len(jobs) // limit)
        jobs = jobs[::step][:limit]
    print(f"{len(jobs)} mutants", flush=True)
    killed = 0
    with mp.Pool(16) as pool, open(out, "w") as f:
        for i, r in enumerate(pool.imap_unordered(run_one, jobs)):
            f.write(json.dumps(r) + "\n")
            f.flush()
            killed += "killed" in r["verdict"]
            if (i + 1) % 100 == 0:
                print(f"{i + 1}/{len(jobs)} done, {killed} killed", flush=True)
    print(f"done: {killed}/{len(jobs)} killed by the battery")


if __name__ == "__main__":
    main()
