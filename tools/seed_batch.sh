#!/bin/bash
# tools/seed_batch.sh <suffix>   e.g. d  -> all /tmp/wt/C??d worktrees
# 1. snapshot /verif, 2. triage every changed worktree with all 19 quick checks (VERIF_REPO=worktree),
# 3. formal record with tools/seed.sh (applies the patch to /repo, restores it) for the checks that fired.
suf=$1; shift
ids=${@:-$(ls /tmp/wt | grep -E "${suf}\$")}
rsync -a --delete --exclude .git --exclude seeded /verif/ /tmp/verif_snap/
export VERIF_HOME=/tmp/verif_snap
echo $ids | tr ' ' '\n' | xargs -P 3 -I{} sh -c 'VERIF_HOME=/tmp/verif_snap /tmp/verif_snap/tools/mutrun.sh /tmp/wt/{} quick > /tmp/triage_{}.log 2>&1'
for x in $ids; do
  prop=${x%?}
  fired=$(grep -v 'rc=0' /tmp/triage_$x.log | grep 'rc=' | awk '{print $1}' | tr '\n' ' ')
  echo "=== $x (fired in triage: $fired)"
  /verif/tools/seed.sh $x $prop /tmp/wt/$x $(echo "$prop $fired" | tr ' ' '\n' | sort -u | tr '\n' ' ')
done
echo ALLDONE
