"""E4 -- API-history explorer on the real objects (explicit state).

A state is the event history that reaches it (live generators cannot be
copied; successors are built by replaying the history on a fresh object).
States are merged on a canonical key taken from the live object: public
counters, flags, generator status, instruction offset and locals of the
generator frame.  Two states with equal keys have identical futures, so
merging is sound.

Alphabet: ("next",) and ("fin", k) for k in K_fin; observer reads are applied
in every state (they must not change the key).

Oracles: C10 protocol model for finalize; C09 flags; both use the machine M
(fed with the actions of the history) as the independent notion of where the
execution is.
"""
import collections
import sys

from . import common
from . import driver as D
from .machine import Machine, DONE, FWD

API = D.API
BIG = sys.maxsize * 4 + 7       # "N unknown": larger than any step number


def _wellformed(a):
    from .props_c18 import wellformed
    return wellformed(a)


def spec_objects(tier):
    """(Config-like spec) list.  For online classes N is irrelevant here."""
    out = []
    for c in ("SingleMemory", "SingleDiskCopy", "SingleDiskMove",
              "NoneSchedule"):
        out.append(D.Config(c, (), 0))
    periods = (1, 2, 3) if tier == "quick" else (1, 2, 3, 4, 5, 7)
    for period in periods:
        for bs in ((0, 1) if tier == "quick" else (0, 1, 2)):
            for st in ("RAM", "DISK"):
                out.append(D.Config("TwoLevel", (period, bs, st, "maximum"), 0))
    if tier != "quick":
        out.append(D.Config("TwoLevel", (3, 1, "RAM", "revolve"), 0))
        out.append(D.Config("TwoLevel", (4, 2, "DISK", "revolve"), 0))
        for n in (4, 5):
            out.append(D.Config("Multistage", (1, 1, "maximum"), n))
            out.append(D.Config("Mixed", (2, "RAM"), n))
            out.append(D.Config("Revolve", (2, 1, 1, 2, 2), n))
            out.append(D.Config("HRevolve", (1, 1, 1, 1, 2, 2), n))
            out.append(D.Config("DiskRevolve", (1, 1, 1, 5, 2), n))
            out.append(D.Config("PeriodicDiskRevolve", (1, 3, 1, 2, 2), n))
    # beyond the interpreter's small-int cache (identity vs equality)
    out.append(D.Config("TwoLevel", (129, 1, "RAM", "maximum"), 0))
    # astronomically long periods; no extra units, so that the step-size
    # search of a block of ~2**63 steps returns at once
    out.append(D.Config("TwoLevel", (sys.maxsize, 0, "RAM", "maximum"), 0))
    out.append(D.Config("TwoLevel", (2 ** 62, 0, "DISK", "maximum"), 0))
    out.append(D.Config("Multistage", (0, 4, "maximum"), 300))
    out.append(D.Config("Mixed", (3, "RAM"), 257))
    for n in (1, 2, 3):
        out.append(D.Config("Multistage", (1, 0, "maximum"), n))
        out.append(D.Config("Mixed", (1, "DISK"), n))
        out.append(D.Config("Revolve", (1, 1, 1, 2, 2), n))
        out.append(D.Config("HRevolve", (1, 1, 1, 1, 2, 2), n))
        out.append(D.Config("DiskRevolve", (1, 1, 1, 2, 2), n))
        out.append(D.Config("PeriodicDiskRevolve", (1, 1, 1, 2, 2), n))
    return out


def k_alphabet(cfg):
    """finalize arguments: every side of every comparison in finalize(), in
    the online loops and in the TwoLevel block arithmetic."""
    edge = [-1, 0, sys.maxsize - 1, sys.maxsize, sys.maxsize + 1]
    if cfg.cls == "TwoLevel":
        p = cfg.params[0]
        if p <= 4:
            ks = list(range(1, 2 * p + 3))
        else:
            ks = sorted({1, 2, p - 1, p, p + 1, 2 * p - 1, 2 * p, 2 * p + 1,
                         2 * p + 2, 257, 258})
    elif cfg.cls in D.ONLINE:
        ks = [1, 2, 3, 4, 257]
    else:
        ks = sorted({1, 2, 3, 4, cfg.N - 1, cfg.N, cfg.N + 1} - {0, -1})
    return sorted(set(ks + edge))


# finalize arguments that are not integers.  Only values every reading of C10
# rejects: below 1, or strictly beyond what the forward has been told to
# advance to (resp. different from the known max_n).  An accepted non-integral
# value *inside* the told range is not explored: the statement gives it no
# meaning (max_n would be no step count).
FINX = ("half", "beyond", "beyond_np")


def finx_value(code, told, max_n):
    """None when the reference is too large for exact float arithmetic (the
    value would not really lie beyond it)."""
    ref = max_n if max_n is not None else told
    if code != "half" and not (0 <= ref < 2 ** 52):
        return None
    if code == "half":
        return 0.5
    if code == "beyond":
        return ref + 0.5
    import numpy
    return numpy.float64(ref) + numpy.float64(0.25)


def stable(v, depth=0):
    """Address-free representation of a local / attribute value."""
    import enum
    import numbers
    if v is None or isinstance(v, (bool, str, numbers.Number, enum.Enum)):
        return repr(v)
    if depth > 6:
        return "<deep>"
    if isinstance(v, (list, tuple)):
        return (type(v).__name__,) + tuple(stable(x, depth + 1) for x in v)
    if isinstance(v, (set, frozenset)):
        return (type(v).__name__,) + tuple(sorted(
            (stable(x, depth + 1) for x in v), key=repr))
    if isinstance(v, dict):
        return ("dict",) + tuple(sorted(
            ((stable(k, depth + 1), stable(x, depth + 1))
             for k, x in v.items()), key=repr))
    if type(v).__module__ == "numpy":
        return ("ndarray", v.shape, hash(v.tobytes()))
    if isinstance(v, API.CheckpointAction):
        return repr(v)
    return f"<{type(v).__name__}>"


def _inst_attrs(s):
    """Instance attributes, with or without a __dict__ (slots)."""
    d = {}
    for klass in type(s).__mro__:
        for k in getattr(klass, "__slots__", ()) or ():
            if isinstance(k, str) and hasattr(s, k):
                d[k] = getattr(s, k)
    d.update(getattr(s, "__dict__", {}))
    return d


def canon(s):
    """Canonical key of a live schedule object: the state of its generator
    (found by type among the instance attributes, whatever it is called)
    plus the remaining instance attributes.  If an implementation keeps its
    state somewhere this cannot see, states are merged and the exploration
    merely covers less -- no oracle depends on two keys being different
    except the "changed although rejected" ones, which then say nothing."""
    import types
    attrs = _inst_attrs(s)
    gens = sorted((k for k, v in attrs.items()
                   if isinstance(v, types.GeneratorType)),
                  key=lambda k: (k != "iter", k))
    if not gens:
        gen = ("unstarted",)
    else:
        gen = ()
        for gk in gens:
            g = attrs[gk]
            if g.gi_frame is None:
                gen += (("finished",),)
            else:
                fr = g.gi_frame
                loc = {k: v for k, v in fr.f_locals.items() if k != "self"}
                gen += (("live", fr.f_lasti,
                         tuple(sorted((k, stable(v))
                                      for k, v in loc.items()))),)
        if len(gen) == 1:
            gen = gen[0]
    rest = tuple(sorted((k, stable(v)) for k, v in attrs.items()
                        if k not in gens and k != "_schedule"))
    return (gen, rest)


def _next_in_thread(s):
    import threading
    box = {}

    def run():
        try:
            box["a"] = next(s)
        except BaseException as e:  # noqa: BLE001
            box["e"] = e
    t = threading.Thread(target=run)
    t.start()
    t.join()
    if "e" in box:
        raise box["e"]
    return box["a"]


class Replayed:
    """The result of replaying one history on a fresh object."""

    def __init__(self, cfg, hist):
        self.cfg = cfg
        self.sched = D.build(cfg)
        self.actions = []
        self.outcomes = []        # per event
        self.accepted_k = None if cfg.cls in D.ONLINE else cfg.N
        self.told = 0             # n1 of the last Forward of the forward sweep
        self.last_fwd = None      # (n0, n1) of it
        self.nexts = 0
        self.was_final = []
        self.timely = True if cfg.cls not in D.ONLINE else None
        for ev in hist:
            self.apply(ev)

    def apply(self, ev):
        s = self.sched
        if ev[0] == "iter":
            try:
                it = iter(s)
                self.outcomes.append(("iter", it is s))
            except Exception as e:  # noqa: BLE001
                self.outcomes.append(("raise", type(e).__name__, str(e)))
            return self.outcomes[-1]
        if ev[0] in ("next", "iternext", "tnext"):
            self.nexts += 1
            self.was_final.append(s.max_n is not None)
            try:
                with common.quiet():
                    if ev[0] == "next":
                        a = next(s)
                    elif ev[0] == "iternext":
                        # what one round of `for a in s: ...; break` does:
                        # obtain an iterator, advance it once, drop it
                        it = iter(s)
                        a = next(it)
                        del it
                    else:
                        # the same request issued from another thread (a
                        # driver loop handed to a thread pool), sequentially
                        a = _next_in_thread(s)
            except StopIteration:
                self.was_final.pop()
                self.outcomes.append(("stop",))
                return self.outcomes[-1]
            except Exception as e:  # noqa: BLE001
                self.was_final.pop()
                self.outcomes.append(("raise", type(e).__name__, str(e)))
                return self.outcomes[-1]
            self.actions.append(a)
            if isinstance(a, API.Forward) and self.accepted_k is None:
                self.told = a.n1
                self.last_fwd = (a.n0, a.n1)
            elif isinstance(a, API.Forward) and self.cfg.cls not in D.ONLINE \
                    and not any(isinstance(x, API.EndForward)
                                for x in self.actions):
                self.told = a.n1
            self.outcomes.append(("action", repr(a)))
            return self.outcomes[-1]
        if ev[0] == "finx":
            k = finx_value(ev[1], self.told, s.max_n)
            if k is None:
                self.outcomes.append(("skipped",))
                return self.outcomes[-1]
        else:
            k = int(str(ev[1]))      # fresh int object, never identical
        pre_max = s.max_n
        try:
            s.finalize(k)
            self.outcomes.append(("ok",))
            if pre_max is None:
                self.accepted_k = k
                lf = self.last_fwd
                self.timely = lf is not None and lf[0] < k <= lf[1]
        except ValueError:
            self.outcomes.append(("ValueError",))
        except RuntimeError:
            self.outcomes.append(("RuntimeError",))
        except Exception as e:  # noqa: BLE001
            self.outcomes.append(("other", type(e).__name__, str(e)))
        return self.outcomes[-1]

    def machine(self):
        """M fed with the actions so far; N = accepted k or 'unknown'."""
        N = self.accepted_k if self.accepted_k is not None else BIG
        cfgN = D.Config(self.cfg.cls, self.cfg.params, min(N, 10 ** 6))
        info = D.class_info(cfgN)
        M = Machine(N, info, API)
        for a, wf in zip(self.actions, self.was_final):
            M.step(a, wf)
        return M


def continuation(cfg, hist, L=14):
    """Default-environment continuation after `hist`: L next() calls; then, if
    the schedule is still unfinalised, finalize at the told step and L more."""
    R = Replayed(cfg, hist)
    out = []
    for _ in range(L):
        out.append(R.apply(("next",)))
    if R.sched.max_n is None and R.told >= 1:
        out.append(R.apply(("fin", R.told)))
        for _ in range(L):
            out.append(R.apply(("next",)))
    return out


def explore(cfg, H, check_continuations=True):
    """BFS over histories up to depth H.  Returns dict with stats and a list
    of findings: (props, code, msg, history)."""
    findings = []
    ks = k_alphabet(cfg)
    events = [("next",), ("iter",)] + [("fin", k) for k in ks] + \
        [("finx", c) for c in FINX]
    try:
        R0 = Replayed(cfg, [])
    except Exception as e:  # noqa: BLE001
        return {"states": 1, "transitions": 1, "continuations": 0,
                "findings": [(("C17",), "construction_raises",
                              f"constructing the object raised "
                              f"{type(e).__name__}: {e}", [])],
                "outcomes": {}, "sample": []}
    seen = {canon(R0.sched): []}
    frontier = collections.deque([[]])
    n_states = 1
    n_trans = 0
    n_cont = 0
    outcomes_seen = collections.Counter()
    online = cfg.cls in D.ONLINE

    def finding(props, code, msg, hist):
        if len(findings) < 50:
            findings.append((tuple(props), code, msg, [list(e) for e in hist]))

    while frontier:
        hist = frontier.popleft()
        base = Replayed(cfg, hist)
        key0 = canon(base.sched)
        M = base.machine()
        # ---------- observers do not disturb, and flags are right (C09)
        s = base.sched
        try:
            obs = (s.n, s.r, s.max_n, s.is_exhausted, s.is_running,
                   tuple(s.uses_storage_type(t) for t in
                         (D.RAM, D.DISK, D.WORK, D.NONE)))
        except Exception as e:  # noqa: BLE001
            finding(["C09", "C11", "C15"], "observer_raises",
                    f"{type(e).__name__}: {e}", hist)
            obs = None
        if canon(s) != key0:
            finding(["C15", "C09"], "observer_changes_state",
                    "reading the public attributes changed the schedule "
                    "state", hist)
        if obs is not None:
            exp_running = base.nexts >= 1
            if bool(obs[4]) != exp_running:
                finding(["C09"], "is_running_wrong",
                        f"is_running={obs[4]} after {base.nexts} next() "
                        "call(s)", hist)
            # exhaustion: only judged on histories the executor could produce
            # (a finalisation inside the last Forward, or offline classes)
            if base.timely is not False:
                exp_ex = (M.phase == DONE)
                if bool(obs[3]) != exp_ex:
                    finding(["C09"], "is_exhausted_wrong",
                            f"is_exhausted={obs[3]} with the machine in phase "
                            f"{M.phase} (r={M.r})", hist)
        if len(hist) >= H:
            continue
        for ev in events:
            n_trans += 1
            R = Replayed(cfg, hist)
            pre_max = R.sched.max_n
            pre_told = R.told
            pre_key = canon(R.sched)
            if pre_key != key0:
                finding(["C15"], "replay_diverged",
                        "replaying the same history gave a different state",
                        hist)
            out = R.apply(ev)
            post_key = canon(R.sched)
            outcomes_seen[(ev[0], out[0])] += 1
            changed = post_key != pre_key
            if ev[0] == "iter":
                # obtaining an iterator requests no action: flags, counters
                # and the subsequent stream are as before
                if out[0] != "iter":
                    finding(["C09", "C15"], "iter_raises",
                            f"iter(schedule) -> {out}", hist + [ev])
                    continue
                s2 = R.sched
                try:
                    if bool(s2.is_running) != (R.nexts >= 1):
                        finding(["C09"], "is_running_after_iter",
                                f"is_running={s2.is_running} after iter() with "
                                f"{R.nexts} action(s) requested", hist + [ev])
                except Exception:  # noqa: BLE001
                    pass
                n_cont += 1
                if continuation(cfg, hist + [ev], L=6) != \
                        continuation(cfg, hist, L=6):
                    finding(["C15", "C09"], "iter_changes_stream",
                            "iter(schedule) changed the subsequent stream",
                            hist + [ev])
                continue
            if ev[0] == "finx":
                # a non-integral argument that must be rejected (with any
                # exception: a stricter type check is no violation), leaving
                # state and subsequent stream untouched
                got = out[0]
                kx = finx_value(ev[1], pre_told, pre_max)
                if got == "skipped":
                    continue
                if got == "ok":
                    finding(["C10"], "finalize_outcome",
                            f"finalize({kx!r}) was accepted (max_n={pre_max}, "
                            f"told={pre_told})", hist + [ev])
                if changed:
                    finding(["C10"], "rejected_finalize_changes_state",
                            f"finalize({kx!r}) -> {got} changed the schedule "
                            "state", hist + [ev])
                elif check_continuations:
                    n_cont += 1
                    if continuation(cfg, hist + [ev], L=6) != \
                            continuation(cfg, hist, L=6):
                        finding(["C10"], "finalize_changes_stream",
                                f"finalize({kx!r}) -> {got}: the subsequent "
                                "stream differs", hist + [ev])
                continue
            if ev[0] == "fin":
                k = ev[1]
                # ---------------- the protocol model (C10)
                fwd_pos = M.fwd
                if k < 1:
                    want = "ValueError"
                elif pre_max is None:
                    want = "ok" if pre_told >= k else "RuntimeError"
                else:
                    if k != pre_max:
                        want = "RuntimeError"
                    elif fwd_pos is None:
                        want = "either"
                    else:
                        want = "ok" if fwd_pos == pre_max else "RuntimeError"
                got = out[0]
                if want != "either" and got != want:
                    finding(["C10"], "finalize_outcome",
                            f"finalize({k}) -> {got}, the protocol requires "
                            f"{want} (max_n={pre_max}, told={pre_told}, "
                            f"forward at {fwd_pos})", hist + [ev])
                    if got != "ok" and changed:
                        finding(["C10"], "rejected_finalize_changes_state",
                                f"finalize({k}) raised but changed the state",
                                hist + [ev])
                    continue
                if got == "ok" and pre_max is None:
                    # accepted: max_n = n = k, next action is EndForward
                    s2 = R.sched
                    if s2.max_n != k or s2.n != k:
                        finding(["C10"], "accepted_finalize_counters",
                                f"after finalize({k}): max_n={s2.max_n} "
                                f"n={s2.n}", hist + [ev])
                    R2 = Replayed(cfg, hist + [ev])
                    o2 = R2.apply(("next",))
                    if not (o2[0] == "action" and o2[1] == "EndForward()"):
                        finding(["C10"], "no_endforward_after_finalize",
                                f"after finalize({k}) the next action is {o2}",
                                hist + [ev])
                    nh = hist + [ev]
                    if post_key not in seen:
                        seen[post_key] = nh
                        n_states += 1
                        frontier.append(nh)
                    continue
                # rejected, or a no-op on a finalised schedule
                if changed:
                    finding(["C10"], "rejected_finalize_changes_state"
                            if got != "ok" else "noop_finalize_changes_state",
                            f"finalize({k}) -> {got} changed the schedule "
                            "state", hist + [ev])
                if check_continuations:
                    n_cont += 1
                    c1 = continuation(cfg, hist + [ev])
                    c0 = continuation(cfg, hist)
                    if c1 != c0:
                        finding(["C10"], "finalize_changes_stream",
                                f"finalize({k}) -> {got}: the subsequent "
                                f"stream differs: {c1[:6]} vs {c0[:6]}",
                                hist + [ev])
                continue
            # ---------------- next
            # the same request through a dropped iterator (`for ... break`)
            # and from another thread must do exactly what next(s) does
            for alt in ("iternext", "tnext"):
                n_trans += 1
                R2 = Replayed(cfg, hist)
                R3 = Replayed(cfg, hist)
                o2 = [R2.apply((alt,)) for _ in range(4)]
                o3 = [R3.apply(("next",)) for _ in range(4)]
                if o2 != o3:
                    how = ("obtaining an iterator, advancing it once and "
                           "dropping it (a `for` loop left by `break`)"
                           if alt == "iternext" else
                           "calling next() from another thread")
                    j = next(i for i in range(4) if o2[i] != o3[i])
                    finding(["C09", "C15"], f"{alt}_differs_from_next",
                            f"{how}: request {j + 1} issued that way gives "
                            f"{o2[j][:2]}, plain next(schedule) calls give "
                            f"{o3[j][:2]}", hist + [(alt,)] * (j + 1))
            if out[0] == "raise":
                # only acceptable for an online schedule that has not started
                finding(["C02", "C09", "C17"], "next_raises",
                        f"next() raised {out[1]}: {out[2]}", hist + [ev])
                continue
            if out[0] == "stop":
                if M.phase != DONE:
                    finding(["C02", "C09"], "premature_stop",
                            f"StopIteration with the machine in phase "
                            f"{M.phase}", hist + [ev])
                # the first StopIteration finishes the generator: a new
                # state from which "keeps raising StopIteration" is explored
                if changed and post_key not in seen:
                    seen[post_key] = hist + [ev]
                    n_states += 1
                    frontier.append(hist + [ev])
                continue
            wf = _wellformed(R.actions[-1])
            if wf:
                finding(["C18"], "illformed_action",
                        f"{out[1]}: [{wf[0][0]}] {wf[0][1]}", hist + [ev])
            if M.phase == DONE:
                finding(["C02", "C09"], "action_after_conclusion",
                        f"next() returned {out[1]} after the final action",
                        hist + [ev])
            nh = hist + [ev]
            if post_key not in seen:
                seen[post_key] = nh
                n_states += 1
                frontier.append(nh)
    return {"states": n_states, "transitions": n_trans, "findings": findings,
            "continuations": n_cont,
            "outcomes": {f"{a}:{b}": c for (a, b), c in outcomes_seen.items()},
            "sample": seen[list(seen)[-1]]}


def explore_from(cfg, hist):
    """Replay support: explore to the depth of `hist` and return the findings
    attached to exactly that history (or to one of its prefixes)."""
    hist = [list(e) for e in hist]
    o = explore(cfg, len(hist))
    return [f for f in o["findings"] if f[3] == hist[:len(f[3])]]
