"""E1 -- the abstract machine M that carries out an action stream literally.

One transition function `Machine.step(action, finalised)`; every guard carries
the ids of the properties it decides.  After a guard failure the machine is
re-synchronised with what the action claims (so that one root cause does not
cascade), and all failures are recorded.

DESIGN.md section 3.1 states the rules; this file is their only implementation.
"""
from collections import namedtuple

INF = float("inf")

Failure = namedtuple("Failure", "props code msg index action")

FWD, REV, DONE = "FWD", "REV", "DONE"
ICS, DEPS, BOTH = "ics", "deps", "both"


class ClassInfo:
    """What the documentation promises for one schedule object.

    b_ram, b_disk : unit budgets (INF = unbounded)
    passes        : number of adjoint calculations permitted (None = unbounded)
    multi_deps    : WORK may hold adjoint dependencies of many steps
                    (SingleMemoryStorageSchedule only)
    """

    def __init__(self, b_ram, b_disk, passes, multi_deps=False):
        self.b_ram = b_ram
        self.b_disk = b_disk
        self.passes = passes
        self.multi_deps = multi_deps


def _is_int(x):
    import numbers
    return isinstance(x, numbers.Integral) and not isinstance(x, bool)


class Machine:
    def __init__(self, N, info, api):
        """api: namespace with Forward, Reverse, Copy, Move, EndForward,
        EndReverse, StorageType of the library under test."""
        self.N = N
        self.info = info
        self.api = api
        self.phase = FWD
        self.fwd = 0
        self.r = 0
        self.w_ics = None        # (c0, c1) loaded restart data not yet used
        self.w_deps = None       # (lo, hi) adjoint dependencies in WORK
        self.ram = {}
        self.disk = {}
        self.passes_done = 0
        self.s_ef = None
        self.failures = []
        self._code_count = {}
        self.index = -1
        # counters
        self.fwd_steps = 0
        self.rev_steps = 0
        self.disk_writes = 0
        self.disk_loads = 0
        self.ram_writes = 0
        self.ram_loads = 0
        self.touched = set()
        self.max_ram = 0
        self.max_disk = 0
        self.transitions = 0
        self.state_keys = set()
        self.disk_load_count = {}

    # ------------------------------------------------------------------
    def _fail(self, props, code, msg, action):
        # at most 50 records per failure code and run: a persistent condition
        # (e.g. an overrun budget) would otherwise be recorded at every step
        self._code_count[code] = self._code_count.get(code, 0) + 1
        if self._code_count[code] > 50:
            return
        self.failures.append(Failure(tuple(props), code, msg, self.index,
                                     repr(action)))

    def _store(self, st):
        S = self.api.StorageType
        if st == S.RAM:
            return self.ram
        if st == S.DISK:
            return self.disk
        return None

    def _budget_check(self, a):
        if len(self.ram) > self.info.b_ram:
            self._fail(["C03"], "ram_budget",
                       f"{len(self.ram)} checkpoints in RAM {sorted(self.ram)} "
                       f"> budget {self.info.b_ram}", a)
        if len(self.disk) > self.info.b_disk:
            self._fail(["C03"], "disk_budget",
                       f"{len(self.disk)} checkpoints on DISK {sorted(self.disk)} "
                       f"> budget {self.info.b_disk}", a)
        self.max_ram = max(self.max_ram, len(self.ram))
        self.max_disk = max(self.max_disk, len(self.disk))

    def key(self):
        """Exact state identity (used where states must be told apart)."""
        return (self.phase, self.fwd, self.r, self.w_ics, self.w_deps,
                tuple(sorted(self.ram.items())),
                tuple(sorted(self.disk.items())), self.passes_done)

    def fast_key(self):
        """O(1) fingerprint for counting visited states: the stores enter via
        their sizes and key sums (a store of n checkpoints would make the
        exact key O(n) per step)."""
        return hash((self.phase, self.fwd, self.r, self.w_ics, self.w_deps,
                     len(self.ram), len(self.disk), self.passes_done))

    def more_passes_permitted(self):
        """Evaluated *after* an EndReverse has been counted."""
        return self.info.passes is None or self.passes_done < self.info.passes

    # ------------------------------------------------------------------
    def step(self, a, finalised):
        """Apply one action.  `finalised`: schedule.max_n was known when the
        action was emitted (then n1 is taken literally, otherwise a Forward
        reaching beyond the true end is truncated there)."""
        api = self.api
        S = api.StorageType
        N = self.N
        self.index += 1
        self.transitions += 1
        nfail = len(self.failures)

        if self.phase == DONE:
            self._fail(["C02", "C09"], "action_after_conclusion",
                       "an action follows the last permitted calculation", a)
            return self.failures[nfail:]

        if isinstance(a, api.Forward):
            self._forward(a, finalised)
        elif isinstance(a, api.Reverse):
            self._reverse(a)
        elif isinstance(a, (api.Copy, api.Move)):
            self._transfer(a, isinstance(a, api.Move))
        elif isinstance(a, api.EndForward):
            if self.phase != FWD:
                self._fail(["C02"], "endforward_repeated",
                           "EndForward emitted outside the forward sweep", a)
            if self.fwd != N:
                self._fail(["C02"], "endforward_not_at_end",
                           f"EndForward with the forward at {self.fwd}, N={N}", a)
            self.phase = REV
            self.s_ef = (dict(self.ram), dict(self.disk))
            if self.info.passes == 0:
                self.phase = DONE
        elif isinstance(a, api.EndReverse):
            if self.phase != REV:
                self._fail(["C02"], "endreverse_in_forward",
                           "EndReverse before EndForward", a)
            if self.r != N:
                self._fail(["C02"], "endreverse_early",
                           f"EndReverse after {self.r} of {N} steps", a)
            self.passes_done += 1
            if self.info.passes is None:
                if self.s_ef is not None and \
                        (self.ram, self.disk) != self.s_ef:
                    self._fail(["C04"], "stores_differ_from_endforward",
                               f"at EndReverse RAM={sorted(self.ram)} "
                               f"DISK={sorted(self.disk)}; at EndForward "
                               f"RAM={sorted(self.s_ef[0])} "
                               f"DISK={sorted(self.s_ef[1])}", a)
            else:
                if self.ram:
                    self._fail(["C04"], "leftover_ram",
                               f"RAM still holds {sorted(self.ram)} at the "
                               f"final EndReverse", a)
                if self.disk:
                    self._fail(["C04"], "leftover_disk",
                               f"DISK still holds {sorted(self.disk)} at the "
                               f"final EndReverse", a)
            if self.more_passes_permitted():
                self.r = 0
            else:
                self.phase = DONE
        else:
            self._fail(["C18", "C02"], "unknown_action",
                       f"not a checkpointing action: {a!r}", a)
        self.state_keys.add(self.fast_key())
        return self.failures[nfail:]

    # ------------------------------------------------------------------
    def _forward(self, a, finalised):
        S = self.api.StorageType
        N = self.N
        try:
            n0, n1, wi, wa, st = a.args
            ok = _is_int(n0) and _is_int(n1)
        except Exception:
            ok = False
        if not ok:
            self._fail(["C18", "C01"], "forward_malformed", "bad arguments", a)
            return
        n0, n1 = int(n0), int(n1)
        if finalised and n1 > N:
            self._fail(["C12"], "forward_beyond_end",
                       f"finalised at N={N} but Forward goes to {n1}", a)
        n1t = min(n1, N)
        if self.fwd is None or self.fwd != n0:
            props = ["C01"] + (["C02"] if self.phase == FWD else [])
            self._fail(props, "forward_not_at_state",
                       f"forward state is at {self.fwd}, Forward starts at {n0}",
                       a)
        if not n0 < n1t:
            self._fail(["C01", "C02"] if self.phase == FWD else ["C01"],
                       "forward_empty",
                       f"Forward over no step ({n0} -> {n1t})", a)
        if self.phase == REV and n1t > N - self.r:
            self._fail(["C12"], "forward_overshoot",
                       f"Forward to {n1t} beyond the adjoint position "
                       f"{N - self.r}", a)
        store = self._store(st)
        if store is not None:
            if bool(wi) == bool(wa):
                self._fail(["C03"], "checkpoint_kind",
                           "a checkpoint must hold exactly one of restart data "
                           f"/ adjoint dependencies (write_ics={wi}, "
                           f"write_adj_deps={wa})", a)
            if wa and n1t - n0 != 1:
                self._fail(["C03"], "deps_checkpoint_multistep",
                           f"adjoint-dependency checkpoint over {n1t - n0} steps",
                           a)
            if n0 in store:
                self._fail(["C01"], "overwrite",
                           f"checkpoint {n0} already exists in {st!r}", a)
            kind = BOTH if (wa and wi) else (DEPS if wa else ICS)
            store[n0] = (kind, n0, n1t)
            self.touched.add(st)
            if st == S.DISK:
                self.disk_writes += 1
            else:
                self.ram_writes += 1
            self._budget_check(a)
            self.w_deps = None
        elif st == S.WORK:
            if wi and wa:
                self._fail(["C12"], "work_restart_and_deps",
                           "restart data and adjoint dependencies written to "
                           "WORK by one Forward", a)
            if wa:
                if not self.info.multi_deps:
                    if n1t - n0 != 1:
                        self._fail(["C12"], "work_deps_multistep",
                                   f"adjoint dependencies of {n1t - n0} steps "
                                   "written to WORK", a)
                    if n1t != N - self.r:
                        self._fail(["C12"], "work_deps_not_at_adjoint",
                                   f"adjoint dependencies of step {n0} written "
                                   f"to WORK, adjoint is at {N - self.r}", a)
                self.w_deps = (n0, n1t)
            else:
                self.w_deps = None
        else:
            # StorageType.NONE (or anything else): nothing is kept
            self.w_deps = None
        # restart data written to WORK stays there until the next Forward
        self.w_ics = (n0, n1t) if (st == S.WORK and wi) else None
        self.fwd = n1t
        if n1t > n0:
            self.fwd_steps += n1t - n0

    # ------------------------------------------------------------------
    def _transfer(self, a, is_move):
        S = self.api.StorageType
        N = self.N
        try:
            n, src, dst = a.args
            ok = _is_int(n)
        except Exception:
            ok = False
        if not ok:
            self._fail(["C18", "C01"], "transfer_malformed", "bad arguments", a)
            return
        n = int(n)
        if self.phase != REV:
            self._fail(["C02"], "transfer_before_endforward",
                       "Copy/Move before EndForward", a)
        store = self._store(src)
        if store is None:
            self._fail(["C01", "C18"], "bad_source",
                       f"source {src!r} is not a checkpoint storage", a)
            return
        self.touched.add(src)
        if n not in store:
            self._fail(["C01"], "missing_checkpoint",
                       f"no checkpoint {n} in {src!r} (has {sorted(store)})", a)
            # resynchronise: pretend a restart checkpoint reaching the adjoint
            entry = (ICS, n, N - self.r)
        else:
            entry = store[n]
        kind, c0, c1 = entry
        if dst == S.WORK:
            if src == S.DISK:
                self.disk_loads += 1
                self.disk_load_count[n] = self.disk_load_count.get(n, 0) + 1
            else:
                self.ram_loads += 1
            if self.w_ics is not None or self.w_deps is not None:
                self._fail(["C12"], "load_into_busy_work",
                           f"WORK still holds restart data {self.w_ics} / "
                           f"adjoint dependencies {self.w_deps}", a)
            if not n < N - self.r:
                self._fail(["C01"], "checkpoint_not_before_adjoint",
                           f"checkpoint {n} loaded with the adjoint at "
                           f"{N - self.r}", a)
            if kind in (DEPS, BOTH) and c1 - c0 > 1 and \
                    not self.info.multi_deps:
                self._fail(["C12"], "loaded_deps_multistep",
                           f"loading checkpoint {n} puts adjoint dependencies "
                           f"of {c1 - c0} steps into WORK", a)
            if kind in (ICS, BOTH):
                if c1 < N - self.r:
                    self._fail(["C01"], "restart_data_short",
                               f"checkpoint {n} covers steps [{c0},{c1}) but "
                               f"steps up to {N - self.r} remain", a)
                self.fwd = n
                self.w_ics = (c0, c1)
                self.w_deps = (c0, c1) if kind == BOTH else None
            else:
                self.fwd = None
                self.w_ics = None
                self.w_deps = (c0, c1)
        elif dst in (S.RAM, S.DISK):
            d = self._store(dst)
            self.touched.add(dst)
            if n in d and not (is_move and dst == src):
                self._fail(["C01"], "overwrite",
                           f"checkpoint {n} already exists in {dst!r}", a)
            if dst == S.DISK:
                self.disk_writes += 1
            else:
                self.ram_writes += 1
            if src == S.DISK:
                self.disk_loads += 1
            if is_move and n in store:
                del store[n]
            d[n] = entry
            self._budget_check(a)
            return
        elif dst == S.NONE:
            if not is_move:
                self._fail(["C18"], "copy_to_none", "Copy to NONE", a)
        else:
            self._fail(["C18", "C01"], "bad_destination",
                       f"destination {dst!r}", a)
        if is_move and n in store:
            del store[n]

    # ------------------------------------------------------------------
    def _reverse(self, a):
        N = self.N
        try:
            n1, n0, clear = a.args
            ok = _is_int(n0) and _is_int(n1)
        except Exception:
            ok = False
        if not ok:
            self._fail(["C18", "C02"], "reverse_malformed", "bad arguments", a)
            return
        n0, n1 = int(n0), int(n1)
        if self.phase != REV:
            self._fail(["C02"], "reverse_before_endforward",
                       "Reverse before EndForward", a)
        if n1 != N - self.r:
            self._fail(["C02"], "reverse_not_at_adjoint",
                       f"Reverse from {n1}, adjoint is at {N - self.r}", a)
        if not (0 <= n0 < n1):
            self._fail(["C02"], "reverse_empty",
                       f"Reverse over no step ({n1} -> {n0})", a)
        if self.w_deps is None or not (self.w_deps[0] <= n0
                                       and n1 <= self.w_deps[1]):
            self._fail(["C01"], "reverse_missing_deps",
                       f"Reverse over [{n0},{n1}) but WORK holds adjoint "
                       f"dependencies {self.w_deps}", a)
        if n1 > n0:
            self.rev_steps += n1 - n0
            self.r = N - n0 if n1 == N - self.r else self.r + (n1 - n0)
        if clear:
            self.w_deps = None

    # ------------------------------------------------------------------
    def cost(self, uf, ub, wd, rd):
        return (uf * self.fwd_steps + ub * self.rev_steps
                + wd * self.disk_writes + rd * self.disk_loads)
