"""Raw-alphabet exploration of the machine M (cross-check of E3).

E3 (vf/search.py) explores a *normalised* alphabet and DESIGN 3.3 argues that
nothing is lost.  This module does not rely on that argument: for tiny
instances it explores M itself -- the very `Machine.step` that accepts the
library's streams -- under the *raw* action alphabet (every Forward length,
every flag/storage combination, every Copy/Move/delete, Reverse, EndForward)
and computes the minimum cost over all action sequences that M accepts without
any guard failure.  The optimum must equal the one of the normalised search.

State = full machine state (phase, fwd, r, WORK contents, both stores with
their coverage intervals), so here the restart-data coverage is *not* relaxed.
"""
import copy
import heapq
from fractions import Fraction

from .machine import Machine, ClassInfo, FWD, REV, DONE
from . import search as S


def raw_actions(M, API, mixed):
    """Every action of the raw alphabet that could be enabled in state M."""
    St = API.StorageType
    N = M.N
    out = []
    A = N - M.r
    if M.phase == DONE:
        return out
    if M.fwd is not None:
        top = N if M.phase == FWD else A
        for n1 in range(M.fwd + 1, top + 1):
            out.append(API.Forward(M.fwd, n1, False, False, St.WORK))
            for st in (St.RAM, St.DISK):
                out.append(API.Forward(M.fwd, n1, True, False, st))
            if n1 == M.fwd + 1:
                out.append(API.Forward(M.fwd, n1, False, True, St.WORK))
                if mixed:
                    for st in (St.RAM, St.DISK):
                        out.append(API.Forward(M.fwd, n1, False, True, st))
    if M.phase == FWD and M.fwd == N:
        out.append(API.EndForward())
    if M.phase == REV:
        for st, store in ((St.RAM, M.ram), (St.DISK, M.disk)):
            for n in store:
                out.append(API.Copy(n, st, St.WORK))
                out.append(API.Move(n, st, St.WORK))
                out.append(API.Move(n, st, St.NONE))
        if M.w_deps is not None and A >= 1:
            out.append(API.Reverse(A, A - 1, True))
            out.append(API.Reverse(A, A - 1, False))
    return out


def action_cost(a, API, costs):
    uf, ub, wd, rd = costs
    St = API.StorageType
    if isinstance(a, API.Forward):
        c = uf * (a.n1 - a.n0)
        if a.storage == St.DISK:
            c += wd
        return c
    if isinstance(a, API.Reverse):
        return ub * (a.n1 - a.n0)
    if isinstance(a, (API.Copy, API.Move)):
        if a.from_storage == St.DISK and a.to_storage == St.WORK:
            return rd
        return 0
    return 0


def solve_raw(N, b_ram, b_disk, costs, API, mixed=False, read_once=False,
              state_cap=400000):
    """Uniform-cost search over raw machine states.  Returns dict(opt,
    states, transitions).  read_once: a Copy from DISK to WORK is not in the
    alphabet (every DISK load is a Move)."""
    (uf, ub, wd, rd), den = S.scale_costs(costs)
    sc = (uf, ub, wd, rd)
    St = API.StorageType
    M0 = Machine(N, ClassInfo(b_ram, b_disk, 1), API)
    start = M0.key()
    dist = {start: 0}
    live = {start: M0}
    heap = [(0, 0, start)]
    done = set()
    tick = 0
    trans = 0
    while heap:
        d, _, k = heapq.heappop(heap)
        if k in done:
            continue
        done.add(k)
        M = live.pop(k)
        if M.phase == REV and M.r == N:
            return {"opt": Fraction(d, den), "states": len(done),
                    "transitions": trans}
        if len(done) > state_cap:
            return {"opt": None, "states": len(done), "transitions": trans,
                    "capped": True}
        for a in raw_actions(M, API, mixed):
            if read_once and isinstance(a, API.Copy) and \
                    a.from_storage == St.DISK and a.to_storage == St.WORK:
                continue
            M2 = copy.copy(M)
            M2.ram = dict(M.ram)
            M2.disk = dict(M.disk)
            M2.failures = []
            M2._code_count = {}
            M2.state_keys = set()
            M2.touched = set()
            M2.disk_load_count = {}
            fs = M2.step(a, True)
            trans += 1
            if fs:
                continue            # not an enabled transition of M
            k2 = M2.key()
            nd = d + action_cost(a, API, sc)
            od = dist.get(k2)
            if od is None or nd < od:
                dist[k2] = nd
                live[k2] = M2
                tick += 1
                heapq.heappush(heap, (nd, tick, k2))
    return {"opt": None, "states": len(done), "transitions": trans}
