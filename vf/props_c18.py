"""C18 -- actions are well-formed value objects.

(a) every action emitted by every configuration of the box (including Mixed
    streams with the tabulated planner forced on) is checked against the
    typing/range clauses, repr round trip and step enumeration;
(b) an alphabet of directly constructed actions: all ordered pairs for the
    equality laws.
"""
import itertools
import numbers
import sys

from . import common
from . import driver as D

BOUNDS = {"quick": 16, "thorough": 30}
API = D.API
S = API.StorageType


def _ns():
    ns = {}
    exec("from checkpoint_schedules import *\nimport sys\nimport numpy as np\n"
         "from checkpoint_schedules import StorageType", ns)
    return ns


NS = None


def is_int(x):
    return isinstance(x, numbers.Integral) and not isinstance(x, bool)


def is_bool(x):
    import numpy as np
    return isinstance(x, (bool, np.bool_))


def kind_args(a):
    return type(a).__name__, tuple(a.args)


def same(a, b):
    return type(a) is type(b) and tuple(a.args) == tuple(b.args)


def wellformed(a):
    """Returns a list of (code, msg) for one action object."""
    global NS
    if NS is None:
        NS = _ns()
    out = []
    t = type(a)
    if t is API.Forward:
        if len(a.args) != 5:
            return [("arity", "Forward needs 5 arguments")]
        n0, n1, wi, wa, st = a.args
        if not (is_int(n0) and is_int(n1)):
            out.append(("forward_int", f"non-integral steps {n0!r}, {n1!r}"))
        elif not (0 <= n0 < n1):
            out.append(("forward_range", f"need 0 <= n0 < n1, got {n0}, {n1}"))
        if not (is_bool(wi) and is_bool(wa)):
            out.append(("forward_flags", f"flags {wi!r}, {wa!r} are not bool"))
        if not isinstance(st, S):
            out.append(("forward_storage_type", f"storage {st!r}"))
        else:
            writes = bool(wi) or bool(wa)
            if st in (S.RAM, S.DISK) and not writes:
                out.append(("forward_storage_nothing_written",
                            f"storage {st!r} but nothing is written"))
            if st == S.NONE and writes:
                out.append(("forward_none_but_written",
                            "storage NONE but something is written"))
    elif t is API.Reverse:
        if len(a.args) != 3:
            return [("arity", "Reverse needs 3 arguments")]
        n1, n0, cl = a.args
        if not (is_int(n0) and is_int(n1)):
            out.append(("reverse_int", f"non-integral steps {n1!r}, {n0!r}"))
        elif not (n1 > n0 >= 0):
            out.append(("reverse_range", f"need n1 > n0 >= 0, got {n1}, {n0}"))
        if not is_bool(cl):
            out.append(("reverse_flag", f"clear_adj_deps {cl!r} is not bool"))
    elif t in (API.Copy, API.Move):
        if len(a.args) != 3:
            return [("arity", "Copy/Move needs 3 arguments")]
        n, src, dst = a.args
        if not is_int(n) or n < 0:
            out.append(("transfer_int", f"step {n!r}"))
        if src not in (S.RAM, S.DISK):
            out.append(("transfer_source", f"source {src!r} is not RAM/DISK"))
        if not isinstance(dst, S):
            out.append(("transfer_destination", f"destination {dst!r}"))
    elif t in (API.EndForward, API.EndReverse):
        if a.args != ():
            out.append(("arity", "End* takes no argument"))
    else:
        return [("kind", f"not an action kind: {t.__name__}")]
    if out:
        return out
    # accessors
    try:
        if t is API.Forward:
            acc = (a.n0, a.n1, a.write_ics, a.write_adj_deps, a.storage)
        elif t is API.Reverse:
            acc = (a.n1, a.n0, a.clear_adj_deps)
        elif t in (API.Copy, API.Move):
            acc = (a.n, a.from_storage, a.to_storage)
        else:
            acc = ()
        if tuple(acc) != tuple(a.args):
            out.append(("accessors", f"{acc!r} != args {a.args!r}"))
    except Exception as e:  # noqa: BLE001
        out.append(("accessors_raise", repr(e)))
    # repr round trip
    try:
        b = eval(repr(a), dict(NS))
        if not same(a, b):
            out.append(("repr_roundtrip", f"eval({repr(a)}) = {b!r}"))
        else:
            try:
                if not (a == b) or (a != b):
                    out.append(("repr_roundtrip_eq",
                                f"eval(repr(a)) == a is not True for {a!r}"))
            except Exception as e:  # noqa: BLE001
                out.append(("eq_raises", f"{a!r} == eval(repr(a)) raised "
                                         f"{type(e).__name__}: {e}"))
    except Exception as e:  # noqa: BLE001
        out.append(("repr_eval_raises", f"eval({repr(a)!r}) raised {e!r}"))
    # step enumeration
    if t in (API.Forward, API.Reverse):
        n0, n1 = int(a.n0), int(a.n1)
        try:
            # Python's len() cannot return more than sys.maxsize: the law is
            # only meaningful (and only demanded) for spans up to that size
            if n1 - n0 <= sys.maxsize and len(a) != n1 - n0:
                out.append(("len", f"len={len(a)} for [{n0},{n1})"))
            got = list(itertools.islice(iter(a), 40))
            if t is API.Forward:
                want = list(itertools.islice(iter(range(n0, n1)), 40))
            else:
                want = list(itertools.islice(iter(range(n1 - 1, n0 - 1, -1)), 40))
            if [int(x) for x in got] != want:
                out.append(("iter", f"iteration gives {got[:8]} expected "
                                    f"{want[:8]}"))
            for x in list(range(max(0, n0 - 2), min(n0 + 3, n1 + 1))) + \
                    list(range(max(n0, n1 - 2), n1 + 3)):
                if (x in a) != (n0 <= x < n1):
                    out.append(("contains", f"{x} in {a!r} is {x in a}"))
                    break
        except Exception as e:  # noqa: BLE001
            out.append(("enumeration_raises", f"{type(e).__name__}: {e}"))
    return out


def typed_probe_list():
    """(action constructor args, probe description) for the membership law
    with integral steps that are not exactly `int`: numpy integers, 0-d
    integer arrays, bool, a user subclass of int -- also on the very wide
    actions the online schedules emit (Forward(0, sys.maxsize, ...))."""
    wide = [("Forward", (0, sys.maxsize, False, True, "WORK")),
            ("Reverse", (sys.maxsize, 0, True)),
            ("Forward", (0, 2 ** 40, True, False, "DISK")),
            ("Forward", (3, 9, True, False, "RAM")),
            ("Reverse", (9, 3, True))]
    out = []
    for kind, args in wide:
        n0, n1 = (args[0], args[1]) if kind == "Forward" else (args[1], args[0])
        vals = sorted({v for v in (n0 - 1, n0, n0 + 1, (n0 + n1) // 2,
                                   10 ** 7, n1 - 2, n1 - 1, n1, n1 + 1)
                       if -2 ** 62 < v < 2 ** 63 - 1})
        for v in vals:
            for typ in ("int64", "array0", "intsub", "bool"):
                if typ == "bool" and v not in (0, 1):
                    continue
                out.append((kind, args, typ, v))
    return out


def typed_probe_run():
    """Runs in a subprocess: prints one line per finished probe."""
    import numpy

    class Step(int):
        pass
    conv = {"int64": numpy.int64, "array0": numpy.array, "intsub": Step,
            "bool": bool}
    for i, (kind, args, typ, v) in enumerate(typed_probe_list()):
        a = list(args)
        if kind == "Forward":
            a[4] = getattr(S, a[4])
            act = API.Forward(*a)
            n0, n1 = a[0], a[1]
        else:
            act = API.Reverse(*a)
            n0, n1 = a[1], a[0]
        x = conv[typ](v)
        try:
            got = bool(x in act)
            ok = got == (n0 <= v < n1)
            print(f"PROBE {i} {'ok' if ok else 'WRONG ' + str(got)}",
                  flush=True)
        except Exception as e:  # noqa: BLE001
            print(f"PROBE {i} RAISED {type(e).__name__}: {e}", flush=True)
    print("PROBE done", flush=True)


def typed_membership_pass(res, prop):
    import os
    import subprocess
    code = ("import sys; sys.path.insert(0, %r); "
            "from vf import props_c18 as P; P.typed_probe_run()"
            % common.VERIF_DIR)
    env = dict(os.environ, PYTHONHASHSEED="0", VERIF_REPO=common.REPO)
    probes = typed_probe_list()
    try:
        p = subprocess.run([sys.executable, "-c", code], env=env, text=True,
                           capture_output=True, timeout=40)
        out, timed_out = p.stdout, False
    except subprocess.TimeoutExpired as e:
        out = e.stdout or ""
        if isinstance(out, bytes):
            out = out.decode()
        timed_out = True
    lines = [x.split(" ", 2) for x in out.splitlines()
             if x.startswith("PROBE ")]
    done = [x for x in lines if x[1] != "done"]
    res.add(evaluations=len(done), states=len(done), transitions=len(done))
    res.counters["typed_membership_probes"] = len(done)

    def describe(i):
        kind, args, typ, v = probes[i]
        return f"{typ}({v}) in {kind}{args}"
    for x in done:
        if x[2] != "ok":
            i = int(x[1])
            rp = common.write_replay(prop, "typed_membership", {
                "property": prop, "kind": "typed_membership", "probe": i})
            res.violation({"code": "typed_membership"},
                          f"{describe(i)}: {x[2]}", rp)
    if timed_out:
        i = len(done)
        rp = common.write_replay(prop, "typed_membership_hangs", {
            "property": prop, "kind": "typed_membership", "probe": i})
        res.violation({"code": "typed_membership_hangs"},
                      f"{describe(i) if i < len(probes) else '?'} did not "
                      "answer within 40 s (the probes before it took "
                      "milliseconds)", rp)
    elif not any(x[1] == "done" for x in lines):
        res.harness_error("typed membership probes did not finish: "
                          f"{out[-200:]}")


def alphabet():
    A = []
    sts = [S.RAM, S.DISK, S.WORK, S.NONE]
    for n0, n1 in ((0, 1), (0, 3), (2, 3), (2, 5), (0, sys.maxsize)):
        for wi, wa, st in ((True, False, S.RAM), (True, False, S.DISK),
                           (False, True, S.WORK), (False, False, S.WORK),
                           (False, True, S.DISK), (False, False, S.NONE),
                           (False, True, S.RAM)):
            A.append(API.Forward(n0, n1, wi, wa, st))
    for n1, n0 in ((1, 0), (3, 0), (3, 2), (5, 2), (7, 6)):
        for cl in (True, False):
            A.append(API.Reverse(n1, n0, cl))
    for cls in (API.Copy, API.Move):
        for n in (0, 1, 2, 5):
            for src in (S.RAM, S.DISK):
                for dst in sts:
                    if dst != src:
                        A.append(cls(n, src, dst))
    A.append(API.EndForward())
    A.append(API.EndReverse())
    A.append(API.EndForward())
    A.append(API.EndReverse())
    return A


def pair_laws(res):
    """All ordered pairs of the alphabet (plus a structurally equal twin of
    each element built independently)."""
    A = alphabet()
    B = alphabet()          # independent but equal objects
    bad = 0
    npairs = 0
    n_equal = 0
    for i, a in enumerate(A):
        for j, b in enumerate(B):
            npairs += 1
            want = same(a, b)
            n_equal += want
            try:
                eq = (a == b)
                ne = (a != b)
            except Exception as e:  # noqa: BLE001
                bad += 1
                if bad <= 1:
                    rp = common.write_replay("C18", "eq_raises", {
                        "property": "C18", "kind": "c18_pair",
                        "a": repr(a), "b": repr(b)})
                    res.violation({"code": "eq_raises"},
                                  f"{a!r} == {b!r} raised "
                                  f"{type(e).__name__}: {e}", rp)
                continue
            if eq is not want or ne is not (not want):
                bad += 1
                if bad <= 3:
                    rp = common.write_replay("C18", "eq_wrong", {
                        "property": "C18", "kind": "c18_pair",
                        "a": repr(a), "b": repr(b)})
                    res.violation({"code": "eq_wrong"},
                                  f"{a!r} == {b!r} is {eq!r} (expected {want}),"
                                  f" != is {ne!r}", rp)
    # reflexivity on the very same object
    for a in A:
        try:
            if not (a == a):
                res.violation({"code": "eq_irreflexive"}, f"{a!r} != itself",
                              common.write_replay("C18", "eq_irreflexive", {
                                  "property": "C18", "kind": "c18_pair",
                                  "a": repr(a), "b": repr(a)}))
        except Exception:  # noqa: BLE001
            pass
    for a in A:
        for code, msg in wellformed(a) if type(a) in (
                API.EndForward, API.EndReverse) else []:
            res.violation({"code": code}, msg, None)
    res.counters["alphabet"] = len(A)
    res.counters["ordered_pairs"] = npairs
    res.counters["pairs_expected_equal"] = n_equal
    res.add(evaluations=npairs)
    return npairs


def alphabet_objects_laws(res):
    """repr/len/iter/in laws on the directly constructed alphabet (those
    members that satisfy the typing clauses by construction)."""
    n = 0
    for a in alphabet():
        if type(a) is API.Forward:
            n0, n1, wi, wa, st = a.args
            writes = wi or wa
            if (st in (S.RAM, S.DISK) and not writes) or \
                    (st == S.NONE and writes):
                continue
        fails = wellformed(a)
        n += 1
        for code, msg in fails:
            rp = common.write_replay("C18", f"alphabet_{code}", {
                "property": "C18", "kind": "c18_object", "a": repr(a)})
            res.violation({"code": code, "where": "alphabet"},
                          f"{a!r}: {msg}", rp)
    res.add(evaluations=n)


def make_reducer():
    def red(run):
        first = None
        seen = set()
        for i, a in enumerate(run.actions):
            ka = kind_args(a)
            try:
                if ka in seen:
                    continue
                seen.add(ka)
            except TypeError:
                pass
            fs = wellformed(a)
            if fs:
                first = {"index": i, "action": repr(a), "code": fs[0][0],
                         "msg": fs[0][1]}
                break
        return {"n": len(run.actions), "distinct": len(seen), "fail": first,
                "built": run.machine is not None}
    return red


def check(prop, tier):
    res = common.Result(prop, tier)
    N = common.bound("C18_N", BOUNDS[tier])
    cfgs = D.box(N, tier)
    res.bounds = {"N_max": N, "configs": len(cfgs)}
    out = D.run_box(cfgs, make_reducer(), observers=False)
    # Mixed with the tabulated planner forced on (np.int64 step numbers)
    mixed_mod = common.repo_mod("mixed")
    mcfgs = [c for c in cfgs if c.cls == "Mixed"]
    saved = mixed_mod.numba
    mixed_mod.numba = object()
    try:
        out2 = D.run_box(mcfgs, make_reducer(), observers=False)
    finally:
        mixed_mod.numba = saved
    nontriv = 0
    for cfg, o, forced in [(c, o, False) for c, o in zip(cfgs, out)] + \
                          [(c, o, True) for c, o in zip(mcfgs, out2)]:
        res.add(evaluations=1, transitions=o["n"], states=o["distinct"])
        if o["built"]:
            res.add(traces_validated_against_impl=1)
        nontriv += o["distinct"]
        if o["fail"]:
            f = o["fail"]
            key = {"cls": cfg.cls, "code": f["code"]}
            rp = common.write_replay(prop, f"{cfg.cls}_{f['code']}", {
                "property": prop, "kind": "c18_stream",
                "config": cfg.as_json(), "forced_tabulation": forced,
                "failure": f})
            res.violation(key, f"{cfg!r}{' (tabulated planner)' if forced else ''}"
                               f": action {f['index']} {f['action']}: "
                               f"[{f['code']}] {f['msg']}", rp)
    pair_laws(res)
    alphabet_objects_laws(res)
    # actions emitted along unusual call sequences (several next() before
    # finalize, rejected finalize calls, ...): the API-history graph of E4
    from . import props_hist
    props_hist.run_histories(res, prop, tier)
    res.cov["distinct_nontrivial"] = nontriv
    res.cov["rule"] = ("every action emitted by every configuration of the box "
                       "(distinct (kind,args) per stream counted) plus all "
                       "ordered pairs over a directly constructed alphabet")
    res.cov["states"] = max(1, res.cov["states"])
    res.sample({"pair": [repr(alphabet()[0]), repr(alphabet()[36])],
                "expected_equal": False})
    res.sample({"emitted": repr(D.drive(cfgs[len(cfgs) // 2],
                                        observers=False).actions[:6])})
    res.assumptions = ["repr is evaluated in the namespace `from "
                       "checkpoint_schedules import *; import sys; import "
                       "numpy as np`",
                       f"emitted actions: box N <= {N}"]
    typed_membership_pass(res, prop)
    return common.finish(res)


def replay(prop, payload):
    if payload.get("kind") == "typed_membership":
        res = common.Result(prop, "quick")
        typed_membership_pass(res, prop)
        for v in res.violations[:3]:
            print(v["detail"])
        if res.violations:
            print(f"VIOLATION property={prop} replay=(replayed)")
            return 1
        print("typed membership probes replayed without a finding")
        return 0
    k = payload["kind"]
    if k == "c18_pair":
        ns = _ns()
        a = eval(payload["a"], dict(ns))
        b = eval(payload["b"], dict(ns))
        want = same(a, b)
        try:
            ok = ((a == b) is want) and ((a != b) is (not want))
        except Exception as e:  # noqa: BLE001
            print(f"{a!r} == {b!r} raised {e!r}")
            ok = False
        if not ok:
            print(f"VIOLATION property={prop} replay=(replayed)")
            return 1
        return 0
    if k == "c18_object":
        ns = _ns()
        a = eval(payload["a"], dict(ns))
        fs = wellformed(a)
        print(fs)
        if fs:
            print(f"VIOLATION property={prop} replay=(replayed)")
            return 1
        return 0
    if k == "c18_stream":
        cfg = D.Config.from_json(payload["config"])
        mixed_mod = common.repo_mod("mixed")
        saved = mixed_mod.numba
        if payload.get("forced_tabulation"):
            mixed_mod.numba = object()
        try:
            o = make_reducer()(D.drive(cfg, observers=False))
        finally:
            mixed_mod.numba = saved
        print(o["fail"])
        if o["fail"]:
            print(f"VIOLATION property={prop} replay=(replayed)")
            return 1
        return 0
    return 2
