"""Which module decides which property."""
from . import common


import importlib

MODULES = {
    "C01": "props_stream", "C02": "props_stream", "C03": "props_stream",
    "C04": "props_stream", "C08": "props_stream", "C11": "props_stream",
    "C12": "props_stream",
    "C18": "props_c18",
    "C17": "props_c17",
    "C15": "props_c15",
    "C13": "props_struct", "C14": "props_struct", "C16": "props_struct", "C19": "props_struct",
    "C09": "props_hist", "C10": "props_hist",
    "C05": "props_opt", "C06": "props_opt", "C07": "props_opt",
}


def _mod(prop):
    return importlib.import_module("vf." + MODULES[prop])


class _Checks(dict):
    def __contains__(self, k):
        return k in MODULES

    def __getitem__(self, k):
        return (lambda prop, tier: _mod(prop).check(prop, tier), MODULES[k])


CHECKS = _Checks()


def replay(prop, payload):
    return _mod(prop).replay(prop, payload)


def selftest():
    """setup_cmd: the harness can import the working tree and the machine
    accepts a hand-written valid stream and rejects a hand-written bad one."""
    from . import driver as D
    from .machine import Machine, ClassInfo
    A = D.API
    S = A.StorageType
    good = [A.Forward(0, 2, True, False, S.RAM),
            A.Forward(2, 3, False, True, S.WORK), A.EndForward(),
            A.Reverse(3, 2, True), A.Copy(0, S.RAM, S.WORK),
            A.Forward(0, 1, False, False, S.WORK),
            A.Forward(1, 2, False, True, S.WORK), A.Reverse(2, 1, True),
            A.Move(0, S.RAM, S.WORK), A.Forward(0, 1, False, True, S.WORK),
            A.Reverse(1, 0, True), A.EndReverse()]
    M = Machine(3, ClassInfo(1, 0, 1), A)
    for a in good:
        M.step(a, True)
    assert not M.failures, M.failures
    assert M.phase == "DONE"
    bad = list(good)
    bad[8] = A.Copy(0, S.RAM, S.WORK)
    M = Machine(3, ClassInfo(1, 0, 1), A)
    for a in bad:
        M.step(a, True)
    assert [f.code for f in M.failures] == ["leftover_ram"], M.failures
    bad = list(good)
    del bad[6]
    M = Machine(3, ClassInfo(1, 0, 1), A)
    for a in bad:
        M.step(a, True)
    assert any(f.code == "reverse_missing_deps" for f in M.failures)
    print("selftest ok: repo =", common.REPO)
    return 0
