"""Which module decides which property."""
from . import common


def _stream(prop, tier):
    from . import props_stream
    return props_stream.check(prop, tier)


CHECKS = {
    "C01": (_stream, "stream"),
    "C02": (_stream, "stream"),
    "C03": (_stream, "stream"),
    "C04": (_stream, "stream"),
    "C08": (_stream, "stream"),
    "C11": (_stream, "stream"),
    "C12": (_stream, "stream"),
}


def replay(prop, payload):
    kind = payload.get("kind")
    if kind == "stream":
        from . import props_stream
        return props_stream.replay(prop, payload)
    print(f"unknown replay kind {kind}")
    return 2


def selftest():
    """setup_cmd: the harness can import the working tree and the machine
    accepts a hand-written valid stream and rejects a hand-written bad one."""
    from . import driver as D
    from .machine import Machine, ClassInfo
    A = D.API
    S = A.StorageType
    good = [A.Forward(0, 2, True, False, S.RAM),
            A.Forward(2, 3, False, True, S.WORK), A.EndForward(),
            A.Reverse(3, 2, True), A.Copy(0, S.RAM, S.WORK),
            A.Forward(0, 1, False, False, S.WORK),
            A.Forward(1, 2, False, True, S.WORK), A.Reverse(2, 1, True),
            A.Move(0, S.RAM, S.WORK), A.Forward(0, 1, False, True, S.WORK),
            A.Reverse(1, 0, True), A.EndReverse()]
    M = Machine(3, ClassInfo(1, 0, 1), A)
    for a in good:
        M.step(a, True)
    assert not M.failures, M.failures
    assert M.phase == "DONE"
    bad = list(good)
    bad[8] = A.Copy(0, S.RAM, S.WORK)
    M = Machine(3, ClassInfo(1, 0, 1), A)
    for a in bad:
        M.step(a, True)
    assert [f.code for f in M.failures] == ["leftover_ram"], M.failures
    bad = list(good)
    del bad[6]
    M = Machine(3, ClassInfo(1, 0, 1), A)
    for a in bad:
        M.step(a, True)
    assert any(f.code == "reverse_missing_deps" for f in M.failures)
    print("selftest ok: repo =", common.REPO)
    return 0
