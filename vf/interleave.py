"""E5 -- interleaving / history-independence explorer.

Threads are schedule objects (generators are the coroutines of this library):
thread i = [construct X_i; next; next; ...].  Shared memory is everything at
module level in the library (memo tables, operation objects and tables handed
between sequence generators, class attributes).  All schedules of the threads
with at most P preemptions are enumerated (iterative context bounding); every
execution runs to completion on fresh objects and each thread's stream must
equal the baseline of its configuration obtained in a fresh interpreter.
"""
import json
import os
import subprocess
import sys

from . import common
from . import driver as D

API = D.API


# ---------------------------------------------------------------------------
# thread programs
# ---------------------------------------------------------------------------
class Thread:
    """One schedule object driven event by event with the driver's
    environment rule (finalize(N) as soon as a Forward reaches N)."""

    def __init__(self, cfg, length):
        self.cfg = cfg
        self.length = length        # number of actions to request
        self.obj = None
        self.stream = []
        self.error = None
        self.finalised = cfg.cls not in D.ONLINE
        self.events = 0

    def enabled(self):
        return self.error is None and \
            (self.obj is None or len(self.stream) < self.length)

    def step(self):
        self.events += 1
        try:
            if self.obj is None:
                self.obj = D.build(self.cfg)
                return
            with common.quiet():
                a = next(self.obj)
            self.stream.append(repr(a))
            if not self.finalised and isinstance(a, API.Forward) \
                    and a.n1 >= self.cfg.N:
                self.obj.finalize(self.cfg.N)
                self.finalised = True
        except StopIteration:
            self.error = "StopIteration"
        except Exception as e:  # noqa: BLE001
            self.error = f"{type(e).__name__}: {e}"


OBSERVERS = ["n", "r", "max_n", "is_exhausted", "is_running",
             "uses:RAM", "uses:DISK", "uses:WORK", "uses:NONE"]


def observe(obj, what):
    if what.startswith("uses:"):
        return obj.uses_storage_type(D.ST[what[5:]])
    return getattr(obj, what)


def run_schedule(cfgs, lengths, schedule, clear=True):
    """Execute one interleaving.  schedule: list of thread indices (one entry
    per event).  Returns list of (stream, error) per thread."""
    if clear:
        from .props_opt import clear_all_memos
        clear_all_memos()
    th = [Thread(c, n) for c, n in zip(cfgs, lengths)]
    for t in schedule:
        if not th[t].enabled():
            # the thread stopped early (exception / StopIteration): its
            # remaining events are void; the mismatch with the baseline is
            # what gets reported
            continue
        th[t].step()
    for t in th:
        guard = 0
        while t.enabled() and guard < 10000:
            t.step()
            guard += 1
    return [(t.stream, t.error) for t in th]


def schedules(total, bound):
    """Generate all complete schedules of threads with `total[i]` events each
    and at most `bound` preemptions (a switch away from a thread that is still
    enabled).  Canonical order: the running thread first, then ascending ids,
    so the first schedule is the default one (no preemption)."""
    k = len(total)
    done = [0] * k
    acc = []

    def rec(cur, used):
        if all(done[i] == total[i] for i in range(k)):
            yield tuple(acc)
            return
        enabled = [i for i in range(k) if done[i] < total[i]]
        cur_enabled = cur is not None and done[cur] < total[cur]
        order = ([cur] if cur_enabled else []) + \
            [i for i in enabled if not (cur_enabled and i == cur)]
        for t in order:
            cost = 1 if (cur_enabled and t != cur) else 0
            if used + cost > bound:
                continue
            done[t] += 1
            acc.append(t)
            yield from rec(t, used + cost)
            acc.pop()
            done[t] -= 1
    yield from rec(None, 0)


def count_schedules(total, bound):
    return sum(1 for _ in schedules(total, bound))


# ---------------------------------------------------------------------------
# baselines from a fresh interpreter
# ---------------------------------------------------------------------------
def baseline_cmd(cfg):
    code = ("import sys, json; sys.path.insert(0, %r); "
            "from vf import interleave as I, driver as D; "
            "cfg = D.Config.from_json(json.loads(sys.argv[1])); "
            "print('BASELINE ' + json.dumps(I.solo_stream(cfg)))"
            % common.VERIF_DIR)
    return [sys.executable, "-c", code, json.dumps(cfg.as_json())]


def solo_stream(cfg, limit=400):
    """The stream of one configuration, alone in this interpreter, driven with
    the environment rule until its permitted/requested passes are over."""
    run = D.drive(cfg, observers=False)
    return {"stream": run.trace_repr()[:limit],
            "error": run.construct_exc or
            (run.stream_exc[1] if run.stream_exc else None)}


def baselines(cfgs):
    """One fresh interpreter per configuration, run concurrently."""
    env = dict(os.environ)
    env["PYTHONHASHSEED"] = "0"
    env["VERIF_REPO"] = common.REPO
    procs = []
    out = []
    batch = 16
    for i in range(0, len(cfgs), batch):
        procs = [subprocess.Popen(baseline_cmd(c), stdout=subprocess.PIPE,
                                  stderr=subprocess.PIPE, env=env, text=True)
                 for c in cfgs[i:i + batch]]
        for c, p in zip(cfgs[i:i + batch], procs):
            so, se = p.communicate(timeout=300)
            line = [x for x in so.splitlines() if x.startswith("BASELINE ")]
            if not line:
                raise RuntimeError(f"HARNESS: no baseline for {c!r}: {se[-400:]}")
            out.append(json.loads(line[-1][9:]))
    return out


def fresh_run(cfgs, lengths, schedule_list):
    """Re-execute a list of schedules in one fresh interpreter; returns the
    result of the last one."""
    code = ("import sys, json; sys.path.insert(0, %r); "
            "from vf import interleave as I, driver as D; "
            "p = json.loads(sys.stdin.read()); "
            "cfgs = [D.Config.from_json(c) for c in p['cfgs']]; "
            "r = None\n"
            "for s in p['schedules']: r = I.run_schedule(cfgs, p['lengths'], s)\n"
            "print('RESULT ' + json.dumps(r))" % common.VERIF_DIR)
    env = dict(os.environ)
    env["PYTHONHASHSEED"] = "0"
    env["VERIF_REPO"] = common.REPO
    p = subprocess.run([sys.executable, "-c", code], env=env, text=True,
                       input=json.dumps({"cfgs": [c.as_json() for c in cfgs],
                                         "lengths": lengths,
                                         "schedules": schedule_list}),
                       capture_output=True, timeout=600)
    line = [x for x in p.stdout.splitlines() if x.startswith("RESULT ")]
    if not line:
        raise RuntimeError(f"HARNESS: fresh run failed: {p.stderr[-400:]}")
    return [tuple(x) for x in json.loads(line[-1][7:])]


# ---------------------------------------------------------------------------
# alphabets
# ---------------------------------------------------------------------------
def C(cls, params, N, passes=1):
    return D.Config(cls, params, N, passes)


def alphabet():
    d = (1, 1, 2, 2)
    full = [
        C("Multistage", (2, 0, "maximum"), 7),
        C("Multistage", (1, 1, "maximum"), 7),
        C("Mixed", (2, "RAM"), 7),
        C("TwoLevel", (3, 1, "RAM", "maximum"), 7),
        C("HRevolve", (1, 1) + d, 6),
        C("HRevolve", (1, 1, 2, 1, 1, 5), 6),
        C("DiskRevolve", (1,) + d, 6),
        C("Revolve", (2,) + d, 6),
        C("Revolve", (2, 5, 1, 1, 1), 6),
        C("PeriodicDiskRevolve", (1,) + d, 9),
        C("SingleDiskCopy", (), 3, 2),
        C("Mixed", (2, "DISK"), 7),
        # ---- the rest of the alphabet (length-1 histories only)
        C("Multistage", (0, 2, "revolve"), 7),
        C("Multistage", (3, 0, "maximum"), 9),
        C("Multistage", (2, 2, "maximum"), 6),
        C("Multistage", (2, 1, "revolve"), 12),
        C("Multistage", (0, 0, "maximum"), 1),
        C("Mixed", (3, "DISK"), 9),
        C("Mixed", (1, "DISK"), 5),
        C("Mixed", (3, "RAM"), 12),
        C("Mixed", (0, "DISK"), 1),
        C("TwoLevel", (3, 1, "DISK", "maximum"), 7),
        C("TwoLevel", (2, 0, "DISK", "maximum"), 5),
        C("TwoLevel", (4, 2, "RAM", "revolve"), 9, 2),
        C("TwoLevel", (5, 2, "DISK", "maximum"), 12),
        C("HRevolve", (2, 1) + d, 8),
        C("HRevolve", (1, 2, 1, 5, 1, 1), 6),
        C("HRevolve", (2, 2, 3, 1, 7, 2), 10),
        C("HRevolve", (1, 1) + d, 1),
        C("DiskRevolve", (1, 1, 1, 10, 10), 6),
        C("DiskRevolve", (2,) + d, 9),
        C("DiskRevolve", (1, 1, 3, 0, 0), 10),
        C("Revolve", (1,) + d, 6),
        C("Revolve", (3,) + d, 9),
        C("Revolve", (1,) + d, 2),
        C("PeriodicDiskRevolve", (1, 1, 1, 10, 10), 9),
        C("PeriodicDiskRevolve", (2,) + d, 12),
        C("SingleMemory", (), 3, 2),
        C("SingleDiskMove", (), 3),
        C("NoneSchedule", (), 4),
        # one-parameter neighbours of members above (same shape, one cost or
        # the trajectory changed): what a memo keyed on too little confuses
        C("PeriodicDiskRevolve", (1, 3, 1, 2, 2), 9),
        C("PeriodicDiskRevolve", (1, 1, 1, 5, 2), 9),
        C("DiskRevolve", (1, 1, 1, 5, 2), 6),
        C("DiskRevolve", (1, 3, 1, 2, 2), 6),
        C("HRevolve", (1, 1, 3, 1, 2, 2), 6),
        C("HRevolve", (1, 1, 1, 1, 2, 5), 6),
        C("Revolve", (2, 1, 3, 2, 2), 6),
        C("Multistage", (2, 0, "revolve"), 7),
        C("Multistage", (3, 0, "revolve"), 9),
        C("TwoLevel", (3, 1, "RAM", "revolve"), 7),
        C("TwoLevel", (4, 1, "DISK", "revolve"), 8),
        C("TwoLevel", (4, 1, "DISK", "maximum"), 8),
        # neighbours in one *integer* parameter (n, RAM units, disk units,
        # period): what a cache that reuses a "larger" entry confuses
        C("HRevolve", (2, 1) + d, 6),
        C("HRevolve", (1, 2) + d, 6),
        C("HRevolve", (1, 1) + d, 7),
        C("HRevolve", (1, 1) + d, 5),
        C("HRevolve", (2, 1) + d, 5),
        C("HRevolve", (3, 1) + d, 4),
        C("HRevolve", (1, 1) + d, 4),
        C("DiskRevolve", (2,) + d, 6),
        C("DiskRevolve", (1,) + d, 7),
        C("Revolve", (3,) + d, 6),
        C("Revolve", (2,) + d, 7),
        C("PeriodicDiskRevolve", (2,) + d, 9),
        C("PeriodicDiskRevolve", (1,) + d, 10),
        C("Multistage", (3, 0, "maximum"), 7),
        C("Multistage", (2, 0, "maximum"), 8),
        C("Mixed", (3, "RAM"), 7),
        C("Mixed", (2, "RAM"), 8),
        C("TwoLevel", (3, 2, "RAM", "maximum"), 7),
        C("TwoLevel", (4, 1, "RAM", "maximum"), 7),
    ]
    return full, full[:12]
