"""Tier B -- reference recurrences / closed forms written for /verif from the
papers, in the cost convention of the machine M (every reversed step pays one
forward step for recording its adjoint dependencies, so for the Revolve family
M-cost = paper-cost + N * uf with N = l + 1 steps).

None of these is trusted on its own: every check first compares them with the
state-graph optimum (tier A) on the whole overlap, in the same run.
"""
from fractions import Fraction
from functools import lru_cache
from math import comb
import sys

sys.setrecursionlimit(20000)


# ---------------------------------------------------------------- binomial
def beta(s, t):
    return comb(s + t, s) if t >= 0 else 0


def binomial_total_steps(n, s):
    """Griewank & Walther (2000), Prop. 1 / eq. (2): minimal number of forward
    steps (M convention: the forward sweep's n steps included) for n steps
    with s checkpoint units."""
    if n == 1:
        return 1
    s = min(s, n - 1)
    if s < 1:
        raise ValueError("no unit")
    t = 0
    while beta(s, t) < n:
        t += 1
    return n + t * n - beta(s + 1, t - 1)


@lru_cache(maxsize=None)
def binomial_total_steps_dp(n, s):
    """Same quantity from the defining recurrence (used to cross-check the
    closed form): first checkpoint interval i, right part with s-1 units."""
    if n == 1:
        return 1
    s = min(s, n - 1)
    if s == 1:
        return n + n * (n - 1) // 2
    return min(i + binomial_total_steps_dp(n - i, s - 1)
               + binomial_total_steps_dp(i, s) for i in range(1, n))


# ------------------------------------------------------------------- mixed
@lru_cache(maxsize=None)
def mixed_total_steps(n, s):
    """Maddison (2024), mixed restart / dependency checkpointing: minimal
    number of forward steps for n steps with s units, no unit holding step 0
    initially."""
    if n == 1:
        return 1
    s = min(s, n - 1)
    if s < 1:
        raise ValueError("no unit")
    if n <= s + 1:
        return n
    if s == 1:
        return n * (n + 1) // 2 - 1
    best = 1 + mixed_total_steps(n - 1, s - 1)
    for i in range(2, n):
        v = i + mixed_total_steps(i, s) + mixed_total_steps(n - i, s - 1)
        if v < best:
            best = v
    return best


# ---------------------------------------------------------- Revolve family
def _F(x):
    return Fraction(x)


class RevolveRefs:
    """Memory-only, read-once-disk and hierarchical optima for one cost vector
    and one (ram, disk) pair, as functions of l = N - 1."""

    def __init__(self, lmax, ram, disk, costs):
        uf, ub, wd, rd = (_F(c) for c in costs)
        self.uf, self.ub, self.wd, self.rd = uf, ub, wd, rd
        self.lmax = lmax
        self.ram = ram
        self.disk = disk
        INF = None
        # ---- memory only: o0[m][l], x_0 occupies one of the m slots
        o0 = [[None] * (lmax + 1) for _ in range(ram + 1)]
        for m in range(ram + 1):
            o0[m][0] = ub
        for m in range(1, ram + 1):
            if lmax >= 1:
                o0[m][1] = uf + 2 * ub
        for l in range(2, lmax + 1):
            o0[1][l] = (l + 1) * ub + Fraction(l * (l + 1), 2) * uf
        for m in range(2, ram + 1):
            for l in range(2, lmax + 1):
                o0[m][l] = min(j * uf + o0[m - 1][l - j] + o0[m][j - 1]
                               for j in range(1, l))
        self.o0 = o0
        # ---- read-once disk, unbounded: oinf[l]
        oinf = [None] * (lmax + 1)
        oinf[0] = ub
        if lmax >= 1:
            oinf[1] = uf + 2 * ub
        for l in range(2, lmax + 1):
            best = o0[ram][l]
            for j in range(1, l):
                v = wd + j * uf + oinf[l - j] + rd + o0[ram][j - 1]
                if v < best:
                    best = v
            oinf[l] = best
        self.oinf = oinf
        # ---- two-level hierarchy (Herrmann & Pallez 2020, Thm 1), levels
        #      0 = RAM (w = r = 0, `ram` slots), 1 = DISK (wd, rd, `disk`)
        # hp[m][l]: x_0 already on disk, m disk slots in total (x_0 uses one)
        # h[m][l] : x_0 in the buffer only, m disk slots free to use
        if disk is not None:
            top = o0[ram]                       # opt at level 0, all slots
            hp = [[None] * (lmax + 1) for _ in range(disk + 1)]
            h = [[None] * (lmax + 1) for _ in range(disk + 1)]
            for l in range(lmax + 1):
                h[0][l] = top[l]
            for m in range(1, disk + 1):
                hp[m][0] = ub
                h[m][0] = ub
                for l in range(1, lmax + 1):
                    best = top[l]
                    for j in range(1, l):
                        v = j * uf + h[m - 1][l - j] + rd + hp[m][j - 1]
                        if v < best:
                            best = v
                    hp[m][l] = best
                    h[m][l] = min(top[l], wd + best)
            self.h = h

    def m_cost(self, paper_cost, l):
        return paper_cost + (l + 1) * self.uf

    def revolve(self, N):
        return self.m_cost(self.o0[self.ram][N - 1], N - 1)

    def disk_revolve(self, N):
        return self.m_cost(self.oinf[N - 1], N - 1)

    def hrevolve(self, N):
        return self.m_cost(self.h[self.disk][N - 1], N - 1)


# ----------------------------------------------- periodic disk revolve (C19)
def periodic_period(ram, costs):
    """Aupy & Herrmann (2017) closed form for the one-read-per-disk-checkpoint
    model: t = min{t : beta(ram+1, t) > (wd+rd)/uf}, m = beta(ram, t)."""
    uf, ub, wd, rd = (_F(c) for c in costs)
    t = 0
    while comb(ram + 1 + t, t) <= (wd + rd) / uf:
        t += 1
    return comb(ram + t, t)
