"""Shared plumbing: binding to the repository under test, evidence files,
known findings, replay files, static parallel map."""
import contextlib
import io
import json
import os
import sys
import time
import warnings

VERIF_DIR = os.path.dirname(os.path.dirname(os.path.abspath(__file__)))
REPO = os.environ.get("VERIF_REPO", "/repo")
GUARD = "CHECKPOINT_SCHEDULES_VERIF"

sys.dont_write_bytecode = True
os.environ.setdefault("PYTHONDONTWRITEBYTECODE", "1")
os.environ.setdefault("PYTHONHASHSEED", "0")
os.environ[GUARD] = "1"


def bind_repo():
    """Make `import checkpoint_schedules` resolve to the working tree of REPO
    (first on sys.path beats the editable-install finder)."""
    if sys.path[0] != REPO:
        sys.path.insert(0, REPO)
    import checkpoint_schedules  # noqa: F401
    f = os.path.realpath(checkpoint_schedules.__file__)
    if not f.startswith(os.path.realpath(REPO) + os.sep):
        raise SystemExit(f"HARNESS-ERROR: checkpoint_schedules imported from {f}, "
                         f"not from {REPO}")
    if os.environ.get("VERIF_WARNINGS") == "error":
        # an application (or `python -W error`, `pytest -W error`) that
        # promotes warnings to errors: whatever the library warns about raises
        # (any module: a warning issued with stacklevel=2 is attributed to
        # the caller; the categories a library uses to talk to its user)
        for cat in (RuntimeWarning, UserWarning, FutureWarning):
            warnings.filterwarnings("error", category=cat)
    else:
        warnings.filterwarnings("ignore", message="Numba not available")
    _record_empty_tables()
    return checkpoint_schedules


_EMPTY_TABLES = None


def _lib_modules():
    return [m for k, m in sorted(sys.modules.items())
            if (k == "checkpoint_schedules"
                or k.startswith("checkpoint_schedules.")) and m is not None]


def _record_empty_tables():
    """Module-level dicts of the library that are empty right after import:
    the only module-level containers reset_lib_memos() may empty again (a
    table with pre-seeded entries is never touched)."""
    global _EMPTY_TABLES
    if _EMPTY_TABLES is not None:
        return
    _EMPTY_TABLES = []
    for m in _lib_modules():
        for k, v in list(vars(m).items()):
            if type(v) is dict and not v and not k.startswith("__"):
                _EMPTY_TABLES.append((m.__name__, k))


def reset_lib_memos():
    """Bring every memo table of the library that can be found back to its
    state at import: functools caches (`cache_clear`), dicts in the closure of
    a module-level function (the repo's `cache_step` decorator) and
    module-level dicts that were empty at import.  Purely an aid to vary the
    fill order between executions: if the implementation keeps its tables
    elsewhere nothing happens and the checks only lose that variation.
    Returns the number of tables emptied."""
    import types
    n = 0
    seen = set()
    seen_fn = set()
    for m in _lib_modules():
        for k, f in list(vars(m).items()):
            if id(f) in seen_fn:
                continue
            seen_fn.add(id(f))
            if not callable(f) or isinstance(f, type):
                continue
            if getattr(f, "__module__", None) is None or \
                    not str(f.__module__).startswith("checkpoint_schedules"):
                continue
            cc = getattr(f, "cache_clear", None)
            if callable(cc):
                try:
                    cc()
                    n += 1
                except Exception:  # noqa: BLE001
                    pass
            if isinstance(f, types.FunctionType):
                for cell in (f.__closure__ or ()):
                    try:
                        v = cell.cell_contents
                    except ValueError:
                        continue
                    if type(v) is dict and id(v) not in seen:
                        seen.add(id(v))
                        v.clear()
                        n += 1
    for mn, k in (_EMPTY_TABLES or ()):
        v = getattr(sys.modules.get(mn), k, None)
        if type(v) is dict and id(v) not in seen:
            seen.add(id(v))
            v.clear()
            n += 1
    return n


def repo_mod(name):
    """The *module* checkpoint_schedules.<name> (package attributes of the
    same name may be functions that shadow the sub-module)."""
    import importlib
    importlib.import_module("checkpoint_schedules." + name)
    return sys.modules["checkpoint_schedules." + name]


@contextlib.contextmanager
def quiet():
    """Swallow stdout (PeriodicDiskRevolve prints its period) -- unless the
    run is about what happens when the library really prints."""
    if os.environ.get("VERIF_STDOUT") == "real":
        yield
        return
    old = sys.stdout
    sys.stdout = io.StringIO()
    try:
        yield
    finally:
        sys.stdout = old


def _override():
    ov = os.environ.get("VERIF_BOUNDS")
    return json.loads(ov) if ov else {}


def bounds(table, tier):
    """The bounds of a check for a tier; VERIF_BOUNDS='{"S": 12}' overrides
    single entries (for exploratory deeper runs and for the reduced battery
    of tools/mutsweep.py; registered commands never set it)."""
    b = dict(table[tier])
    b.update({k: v for k, v in _override().items() if k in b})
    return b


def bound(name, default):
    """A scalar bound that VERIF_BOUNDS may override under `name`."""
    return _override().get(name, default)


def seed():
    try:
        return int(os.environ.get("VERIF_SEED", "0"))
    except ValueError:
        return 0


def ncores():
    try:
        n = int(os.environ.get("VERIF_JOBS", "0"))
    except ValueError:
        n = 0
    return n if n > 0 else min(16, os.cpu_count() or 1)


# --------------------------------------------------------------------------
# static-partition parallel map (fork; children import nothing new)
# --------------------------------------------------------------------------

_W = None


def _trampoline(arg):
    return _W(arg)


def pmap(worker, n_items, jobs=None, chunked=None):
    """Run worker(index_list) -> result in `jobs` forked processes over the
    static partition index mod jobs; returns the list of results in worker
    order.  The partition is deterministic, so coverage is the same on every
    run."""
    import multiprocessing as mp
    jobs = jobs or ncores()
    jobs = max(1, min(jobs, n_items)) if n_items else 1
    parts = [list(range(k, n_items, jobs)) for k in range(jobs)]
    if jobs == 1:
        return [worker(parts[0])]
    global _W
    _W = worker
    ctx = mp.get_context("fork")
    with ctx.Pool(jobs) as pool:
        return pool.map(_trampoline, parts, chunksize=1)


def pmap_dynamic(worker, items, jobs=None):
    """Dynamic scheduling for tasks of very uneven cost (state-graph
    searches); results are returned in item order, so the outcome does not
    depend on scheduling."""
    import multiprocessing as mp
    jobs = jobs or ncores()
    if jobs == 1 or len(items) <= 1:
        return [worker(it) for it in items]
    global _W
    _W = worker
    ctx = mp.get_context("fork")
    with ctx.Pool(min(jobs, len(items))) as pool:
        return pool.map(_trampoline, items, chunksize=1)


# --------------------------------------------------------------------------
# known findings
# --------------------------------------------------------------------------

def load_known():
    p = os.path.join(VERIF_DIR, "known_findings.json")
    if not os.path.exists(p):
        return {"known": [], "fixed": []}
    with open(p) as f:
        return json.load(f)


def match_known(prop, key):
    """key: dict describing the violation (class, code, ...).  A known entry
    matches when its property is equal and every field of its `match` dict is
    equal to the same field of key."""
    for e in load_known().get("known", []):
        if e.get("property") != prop:
            continue
        m = e.get("match", {})
        if all(key.get(k) == v for k, v in m.items()):
            return e
    return None


# --------------------------------------------------------------------------
# result / evidence
# --------------------------------------------------------------------------

class Result:
    """Accumulates what one check run covered and found."""

    def __init__(self, prop, tier):
        self.prop = prop
        self.tier = tier
        self.t0 = time.time()
        self.cov = {"states": 0, "transitions": 0,
                    "traces_validated_against_impl": 0,
                    "evaluations": 0, "distinct_nontrivial": 0,
                    "samples": [], "exhaustive": True}
        self.violations = []     # list of dicts (key, detail, replay)
        self.known = []          # list of (entry, key)
        self.harness_errors = []
        self.assumptions = []
        self.bounds = {}
        self.counters = {}

    def add(self, **kw):
        for k, v in kw.items():
            self.cov[k] = self.cov.get(k, 0) + v

    def count(self, name, k=1):
        self.counters[name] = self.counters.get(name, 0) + k

    def sample(self, s, cap=6):
        if len(self.cov["samples"]) < cap:
            self.cov["samples"].append(s)

    def violation(self, key, detail, replay):
        e = match_known(self.prop, key)
        if e is not None:
            self.known.append((e, key))
        else:
            self.violations.append({"key": key, "detail": detail,
                                    "replay": replay})

    def harness_error(self, msg):
        self.harness_errors.append(msg)


_WRITTEN = set()


def write_replay(prop, name, payload):
    """First write wins within one run: the replay file of a (property, name)
    describes the first violation reported under that name."""
    d = os.environ.get("VERIF_REPLAY_DIR") or os.path.join(VERIF_DIR, "replays")
    os.makedirs(d, exist_ok=True)
    p = os.path.join(d, f"{prop}_{name}.json")
    if p in _WRITTEN:
        return p
    _WRITTEN.add(p)
    with open(p, "w") as f:
        json.dump(payload, f, indent=1, default=repr)
    return p


def finish(res):
    """Write the evidence file, print the verdict lines, return exit code."""
    wall = time.time() - res.t0
    cov = dict(res.cov)
    cov["bounds"] = res.bounds
    cov["counters"] = res.counters
    if not cov["samples"]:
        cov["samples"] = ["(no sample recorded)"]
    cov["states"] = int(cov["states"])
    cov["transitions"] = int(cov["transitions"])
    ev = {
        "property_id": res.prop,
        "tier": res.tier,
        "seed": seed(),
        "level": "model_checking",
        "coverage": cov,
        "assumptions": res.assumptions,
        "wall_s": round(wall, 3),
        "violations": len(res.violations),
        "known_findings_seen": sorted({e["id"] for e, _ in res.known}),
        "harness_errors": res.harness_errors[:10],
    }
    d = os.environ.get("VERIF_EVIDENCE_DIR") or os.path.join(VERIF_DIR, "evidence")
    os.makedirs(d, exist_ok=True)
    with open(os.path.join(d, f"{res.prop}.json"), "w") as f:
        json.dump(ev, f, indent=1, default=repr)
        f.write("\n")

    seen = set()
    for e, key in res.known:
        if e["id"] in seen:
            continue
        seen.add(e["id"])
        n = sum(1 for e2, _ in res.known if e2["id"] == e["id"])
        print(f"KNOWN-FINDING: property={res.prop} {e['id']}: {e['what']} "
              f"({n} occurrence(s) in this run)")
    rc = 0
    if res.harness_errors:
        for m in res.harness_errors[:10]:
            print(f"HARNESS-ERROR property={res.prop}: {m}")
        rc = 2
    if res.violations:
        shown = set()
        for v in res.violations:
            if v["replay"] in shown:
                continue
            shown.add(v["replay"])
            if len(shown) > 20:
                break
            print(f"VIOLATION property={res.prop} replay={v['replay']}")
            print(f"  detail: {v['detail']}")
        rc = 1
    c = res.cov
    print(f"{res.prop} {res.tier}: states={c['states']} transitions={c['transitions']} "
          f"traces={c['traces_validated_against_impl']} evaluations={c['evaluations']} "
          f"nontrivial={c['distinct_nontrivial']} violations={len(res.violations)} "
          f"known={len(res.known)} wall={wall:.1f}s")
    return rc
