"""Structural properties over exhaustively enumerated configuration boxes:
C13 (TwoLevel), C14 (Multistage split), C16 (Mixed with/without numba),
C19 (PeriodicDiskRevolve)."""
import json
import itertools
from fractions import Fraction

from . import common
from . import driver as D
from . import refs
from . import search as S

API = D.API
ST = API.StorageType


def F(x):
    return Fraction(x)


def _solve(task):
    tag, kw = task
    P = S.Problem(**kw)
    o = S.solve(P)
    ok, cost, codes, relaxed = S.validate_witness(P, o["path"], API)
    return {"tag": tag, "opt": o["opt"], "states": o["states"],
            "transitions": o["transitions"], "w_ok": ok and cost == o["opt"]}


def binomial_table(res, Lmax, smax):
    """Tier A binomial optimum for L <= Lmax, validated closed form above."""
    tasks = [((L, s), dict(N=L, b_ram=s, b_disk=0))
             for L in range(1, Lmax + 1)
             for s in range(1, min(smax, max(1, L - 1)) + 1)]
    tab = {}
    for o in common.pmap_dynamic(_solve, tasks):
        res.add(states=o["states"], transitions=o["transitions"],
                traces_validated_against_impl=1)
        if not o["w_ok"]:
            res.harness_error(f"witness rejected at {o['tag']}")
        if refs.binomial_total_steps(*o["tag"]) != o["opt"]:
            res.harness_error(f"closed form != state graph at {o['tag']}")
        tab[o["tag"]] = int(o["opt"])

    def opt(L, s):
        s = min(s, max(1, L - 1))
        return tab[(L, s)] if (L, s) in tab else refs.binomial_total_steps(L, s)
    return opt


# ===========================================================================
# C13
# ===========================================================================
C13_BOUNDS = {"quick": dict(N=26, P=14, K=2, LA=10, BS=5),
              "thorough": dict(N=50, P=26, K=3, LA=13, BS=6)}


def c13_eval(cfg, opt):
    run = D.drive(cfg, observers=False)
    period, bs, st, traj = cfg.params
    N = cfg.N
    acts = run.actions
    if run.machine is None or run.stream_exc:
        return ("no_stream", f"{run.construct_exc} {run.stream_exc}", 0, False)
    if run.ef_index is None:
        return ("no_endforward", "stream has no EndForward", len(acts), False)
    # (1) forward sweep
    nblocks = -(-N // period)
    want = [repr(API.Forward(k * period, (k + 1) * period, True, False,
                             ST.DISK)) for k in range(nblocks)]
    got = [repr(a) for a in acts[:run.ef_index]]
    if got != want:
        return ("forward_sweep", f"forward sweep {got[:4]}... expected "
                                 f"{want[:4]}...", len(acts), False)
    # (2)+(3) per pass, per block
    bst = D.ST[st]
    nontrivial = False
    for pno, (a0, a1) in enumerate(run.pass_slices, start=1):
        steps = [0] * nblocks
        for a in acts[a0:a1]:
            if isinstance(a, API.Forward):
                b = a.n0 // period
                if (a.n1 - 1) // period != b:
                    return ("forward_crosses_block",
                            f"pass {pno}: {a!r} crosses a period boundary",
                            len(acts), False)
                steps[b] += a.n1 - a.n0
                if a.storage in (ST.RAM, ST.DISK) and a.storage != bst:
                    return ("wrong_binomial_storage",
                            f"pass {pno}: {a!r} writes to {a.storage!r}, "
                            f"binomial storage is {bst!r}", len(acts), False)
        for b in range(nblocks):
            L = min((b + 1) * period, N) - b * period
            w = opt(L, bs + 1)
            if L >= 3 and bs >= 1:
                nontrivial = True
            if steps[b] != w:
                return ("block_steps",
                        f"pass {pno}, block [{b * period},{b * period + L}): "
                        f"{steps[b]} forward steps, binomial optimum for "
                        f"({L} steps, {bs + 1} units) is {w}", len(acts), False)
    if len(run.pass_slices) != cfg.passes:
        return ("passes", f"{len(run.pass_slices)} passes instead of "
                          f"{cfg.passes}", len(acts), False)
    return (None, "", len(acts), nontrivial)


def check_c13(prop, tier):
    res = common.Result(prop, tier)
    B = common.bounds(C13_BOUNDS, tier)
    res.bounds = dict(B)
    opt = binomial_table(res, B["LA"], B["BS"] + 1)
    cfgs = []
    for n in range(1, B["N"] + 1):
        for period in range(1, B["P"] + 1):
            for bs in range(0, B["BS"] + 1):
                for st in ("RAM", "DISK"):
                    for traj in ("maximum", "revolve"):
                        for k in range(1, B["K"] + 1):
                            cfgs.append(D.Config("TwoLevel",
                                                 (period, bs, st, traj), n, k))
    # long blocks with a two-digit number of units (arguments of the step
    # planner whose decimal digits can be split in two ways)
    for per, bs in ((1000, 14), (1000, 15), (1000, 16), (1000, 24),
                    (817, 14), (1500, 16), (1500, 21)):
        cfgs.append(D.Config("TwoLevel", (per, bs, "RAM", "maximum"), per, 1))
    cfgs.append(D.Config("TwoLevel", (1000, 15, "DISK", "revolve"), 2200, 1))

    # siblings (same n and period; units, storage, trajectory, passes vary) are
    # evaluated by one worker back to back, in both orders
    groups = {}
    for i, c in enumerate(cfgs):
        groups.setdefault((c.N, c.params[0]), []).append(i)
    glist = list(groups.values())

    def worker(gidx):
        out = []
        for g in gidx:
            for i in glist[g] + glist[g][::-1]:
                out.append((i,) + c13_eval(cfgs[i], opt))
        return out
    nontriv = 0
    for part in common.pmap(worker, len(glist)):
        seen_ok = set()
        for i, code, msg, nact, nt in part:
            cfg = cfgs[i]
            if code is None:
                if i in seen_ok:
                    continue
                seen_ok.add(i)
            res.add(evaluations=1, transitions=nact)
            if code is None:
                res.add(traces_validated_against_impl=1)
                nontriv += bool(nt)
            else:
                rp = common.write_replay(prop, f"TwoLevel_{code}", {
                    "property": prop, "kind": "c13", "config": cfg.as_json(),
                    "code": code, "msg": msg})
                res.violation({"cls": "TwoLevel", "code": code},
                              f"{cfg!r}: [{code}] {msg}", rp)
    # ---- guided deep confirmations: scan the step-size function for long
    #      blocks / few units, confirm each anomaly on a real TwoLevel object
    from .props_opt import scan_n_advance, GUIDE
    G = dict(GUIDE[tier])
    G["SG"] = min(G["SG"], 8)
    bad, n_eval = scan_n_advance(**G)
    res.bounds["planner_scan"] = G
    res.counters["planner_scan_points"] = n_eval
    if bad is not None:
        res.counters["planner_scan_anomalies"] = len(bad)
        for n, s_units, traj, why in sorted(bad)[:4]:
            cfg = D.Config("TwoLevel", (n, s_units - 1, "RAM", traj), n, 1)
            code, msg, nact, nt = c13_eval(cfg, refs.binomial_total_steps)
            res.add(evaluations=1, transitions=nact)
            if code is not None:
                rp = common.write_replay(prop, f"TwoLevel_deep_{code}", {
                    "property": prop, "kind": "c13", "config": cfg.as_json(),
                    "code": code, "msg": msg})
                res.violation({"cls": "TwoLevel", "code": code},
                              f"{cfg!r}: [{code}] {msg} (found via the "
                              f"step-size scan: {why})", rp)
    res.cov["distinct_nontrivial"] = nontriv
    res.cov["rule"] = ("every (n, period, binomial_snapshots, storage, "
                       "trajectory, passes) of the box; non-trivial = some "
                       "block of length >= 3 recomputed with >= 1 extra unit")
    if nontriv == 0:
        res.harness_error("vacuous: no non-degenerate block")
    c = cfgs[(common.seed() * 101 + len(cfgs) // 2) % len(cfgs)]
    res.sample({"config": c.as_json(),
                "trace_head": D.drive(c, observers=False).trace_repr()[:12]})
    res.assumptions = ["per-block binomial optimum from the state graph of M "
                       f"(L <= {B['LA']}) / validated closed form"]
    return common.finish(res)


# ===========================================================================
# C14
# ===========================================================================
C14_BOUNDS = {"quick": dict(N=32), "thorough": dict(N=56)}


def c14_profile(cfg):
    """Drive one Multistage configuration; return its storage-erased stream,
    the per-position labels and access counts."""
    run = D.drive(cfg, observers=False)
    if run.machine is None or run.stream_exc or run.machine.phase != D.DONE:
        return None
    erased = []
    stored = []            # sorted list of currently stored steps
    label = {}             # position -> storage
    acc = {}               # position -> writes + loads
    clash = None
    import bisect
    for a in run.actions:
        if isinstance(a, API.Forward):
            if a.storage in (ST.RAM, ST.DISK):
                pos = bisect.bisect_left(stored, a.n0)
                bisect.insort(stored, a.n0)
                if pos != len(stored) - 1:
                    clash = clash or f"{a!r} is not written on top of the stack"
                erased.append(("F", a.n0, a.n1, a.write_ics, a.write_adj_deps,
                               "CP"))
                st = a.storage
            else:
                erased.append(("F", a.n0, a.n1, a.write_ics, a.write_adj_deps,
                               a.storage.name))
                continue
        elif isinstance(a, (API.Copy, API.Move)):
            if a.n not in stored:
                return None
            pos = stored.index(a.n)
            erased.append((type(a).__name__, a.n, "CP", a.to_storage.name))
            st = a.from_storage
            if isinstance(a, API.Move):
                stored.remove(a.n)
        else:
            erased.append((type(a).__name__,) + tuple(a.args))
            continue
        if pos in label and label[pos] != st:
            clash = clash or (f"stack position {pos} is {label[pos].name} and "
                              f"later {st.name} ({a!r})")
        label.setdefault(pos, st)
        acc[pos] = acc.get(pos, 0) + 1
    return {"erased": erased, "label": {k: v.name for k, v in label.items()},
            "acc": acc, "clash": clash, "n": len(run.actions)}


def check_c14(prop, tier):
    res = common.Result(prop, tier)
    B = common.bounds(C14_BOUNDS, tier)
    res.bounds = dict(B)
    groups = []
    for n in range(1, B["N"] + 1):
        for s in range(1 if n > 1 else 0, n + 2):
            for traj in ("maximum", "revolve"):
                groups.append((n, s, traj))
    # large-unit layer: more than a thousand stack positions, a few splits
    big_groups = []
    for n in ((1100,) if tier == "quick" else (1100, 3000)):
        for s in (n - 1, n - 2, n - 3, n // 2, 1001):
            for traj in ("maximum", "revolve"):
                big_groups.append((n, s, traj))
    res.bounds["large_unit_layer"] = [list(g) for g in big_groups]
    n_small = len(groups)
    groups = groups + big_groups

    # groups 2k and 2k+1 are the two trajectories of one (n, s): one worker
    # drives them back to back, 'maximum' first in one sweep and 'revolve'
    # first in a second sweep over fresh processes, so that a table shared
    # between constructions and keyed without the trajectory is seen from
    # either side
    first_traj = [0]

    def worker(pidxs):
        out = []
        for gi in [2 * pi + (k ^ first_traj[0]) for pi in pidxs
                   for k in (0, 1)]:
            n, s, traj = groups[gi]
            fails = []
            base = None
            ntr = 0
            nact = 0
            nsplit = 0
            rams = range(0, s + 1) if gi < n_small else \
                (0, 1, s // 3, s // 2, s - 1)
            # small groups once more with the integers handed over as numpy
            # scalars (signed and unsigned: -k of an unsigned wraps), 0-d
            # arrays
            variants = [(ram, False) for ram in rams]
            if gi < n_small and n <= 9:
                variants += [(ram, fl) for ram in rams
                             for fl in ("int64", "uint64", "uint8", "uint32a",
                                        "array0")]
            for ram, fl in variants:
                cfg = D.Config("Multistage", (ram, s - ram, traj), n, 1, fl)
                p = c14_profile(cfg)
                nsplit += 1
                if p is None:
                    fails.append((cfg.as_json(), "no_stream",
                                  "stream could not be produced/profiled"))
                    continue
                nact += p["n"]
                if base is None:
                    base = (cfg, p["erased"])
                elif p["erased"] != base[1]:
                    k = next((i for i, (x, y) in
                              enumerate(zip(p["erased"], base[1])) if x != y),
                             min(len(p["erased"]), len(base[1])))
                    fails.append((cfg.as_json(), "split_changes_stream",
                                  f"differs from {base[0]!r} at action {k}: "
                                  f"{p['erased'][k:k + 1]} vs "
                                  f"{base[1][k:k + 1]}"))
                if p["clash"]:
                    fails.append((cfg.as_json(), "position_changes_storage",
                                  p["clash"]))
                npos = (max(p["acc"]) + 1) if p["acc"] else 0
                nram = sum(1 for v in p["label"].values() if v == "RAM")
                if nram > ram:
                    fails.append((cfg.as_json(), "too_many_ram_positions",
                                  f"{nram} stack positions labelled RAM, "
                                  f"declared {ram}"))
                a = [p["acc"].get(d, 0) for d in range(npos)]
                disk_acc = sum(a[d] for d in range(npos)
                               if p["label"].get(d) == "DISK")
                k = min(ram, npos)
                best = sum(sorted(a)[:npos - k])
                if npos <= 10:
                    brute = min((sum(a) - sum(a[i] for i in c))
                                for c in itertools.combinations(range(npos), k))
                    if brute != best:
                        fails.append((cfg.as_json(), "HARNESS",
                                      "sorted minimum != enumerated minimum"))
                if disk_acc != best:
                    fails.append((cfg.as_json(), "disk_traffic_not_minimal",
                                  f"{disk_acc} DISK accesses with labels "
                                  f"{p['label']} and per-position accesses "
                                  f"{a}; minimum with {k} RAM positions is "
                                  f"{best}"))
                if 0 < k < npos and len(set(a)) > 1:
                    ntr += 1
            out.append((gi, fails, ntr, nact, nsplit))
        return out
    nontriv = 0
    assert len(groups) % 2 == 0
    parts = []
    for first_traj[0] in (0, 1):
        parts += common.pmap(worker, len(groups) // 2)
    res.bounds["trajectory_orders"] = 2
    reported = set()
    for part in parts:
        for gi, fails, ntr, nact, nsplit in part:
            res.add(evaluations=nsplit, transitions=nact, states=nact,
                    traces_validated_against_impl=nsplit)
            nontriv += ntr
            for cj, code, msg in fails:
                if (json.dumps(cj, sort_keys=True, default=str), code) \
                        in reported:
                    continue
                reported.add((json.dumps(cj, sort_keys=True, default=str),
                              code))
                if code == "HARNESS":
                    res.harness_error(msg)
                    continue
                cfg = D.Config.from_json(cj)
                rp = common.write_replay(prop, f"Multistage_{code}", {
                    "property": prop, "kind": "c14", "config": cj,
                    "code": code, "msg": msg})
                res.violation({"cls": "Multistage", "code": code},
                              f"{cfg!r}: [{code}] {msg}", rp)
    res.cov["distinct_nontrivial"] = nontriv
    res.cov["rule"] = ("every n, every total s, every split (ram, s-ram), both "
                       "trajectories; non-trivial = splits with a real choice "
                       "(0 < RAM positions < positions, unequal access counts)")
    if nontriv == 0:
        res.harness_error("vacuous: no split with a real choice")
    g = groups[(common.seed() * 17 + len(groups) // 2) % len(groups)]
    cfg = D.Config("Multistage", (g[1] // 2, g[1] - g[1] // 2, g[2]), g[0])
    p = c14_profile(cfg)
    res.sample({"config": cfg.as_json(), "labels": p and p["label"],
                "accesses": p and p["acc"]})
    res.assumptions = ["stack position of a checkpoint = its rank among the "
                       "currently stored steps (implementation independent)"]
    return common.finish(res)


def c14_replay_eval(cfg):
    n = cfg.N
    s = cfg.params[0] + cfg.params[1]
    # as in the check, the same split on the other trajectory is built first
    # (a failure may need that predecessor; one that does not shows anyway)
    other = "revolve" if cfg.params[2] == "maximum" else "maximum"
    c14_profile(D.Config("Multistage", (cfg.params[0], cfg.params[1], other),
                         n))
    p = c14_profile(cfg)
    base = c14_profile(D.Config("Multistage", (0, s, cfg.params[2]), n))
    return p, base


# ===========================================================================
# C16
# ===========================================================================
C16_BOUNDS = {"quick": dict(NT=60, NS=40, NBIG=70000, WIDE=(720, 30)),
              "thorough": dict(NT=110, NS=72, NBIG=300000, WIDE=(1200, 40))}


def norm_action(a):
    out = [type(a).__name__]
    for x in a.args:
        if isinstance(x, ST):
            out.append(x.name)
        elif isinstance(x, bool):
            out.append(x)
        else:
            try:
                out.append(int(x))
            except Exception:  # noqa: BLE001
                out.append(repr(x))
    return tuple(out)


def mixed_stream(cfg, forced):
    mixed = common.repo_mod("mixed")
    saved = mixed.numba
    if forced:
        mixed.numba = object()
    try:
        run = D.drive(cfg, observers=False)
    finally:
        mixed.numba = saved
    return run


def mixed_pair(a, b, only_k=None):
    """Two Mixed objects alive at once with the tabulated path forced on.
    Returns ((k, message) or None, executions)."""
    (na, sa), (nb, sb) = a, b
    mixed = common.repo_mod("mixed")
    ca = D.Config("Mixed", (sa, "DISK"), na)
    cb = D.Config("Mixed", (sb, "RAM"), nb)
    ref_a = [norm_action(x) for x in mixed_stream(ca, False).actions]
    ref_b = [norm_action(x) for x in mixed_stream(cb, False).actions]
    bad = None
    nexec = 0
    saved = mixed.numba
    mixed.numba = object()
    try:
        ks = range(0, len(ref_a) + 1) if only_k is None else [only_k]
        for k in ks:
            nexec += 1
            try:
                with common.quiet():
                    A = D.build(ca)
                    got_a = [norm_action(next(A)) for _ in range(k)]
                    B2 = D.build(cb)
                    got_b = [norm_action(x) for x in B2]
                    got_a += [norm_action(x) for x in A]
            except Exception as e:  # noqa: BLE001
                bad = (k, f"{type(e).__name__}: {e}")
                break
            if got_a != ref_a or got_b != ref_b:
                who = "first" if got_a != ref_a else "second"
                bad = (k, f"the {who} object's stream differs from its "
                          "memoised-path stream")
                break
    finally:
        mixed.numba = saved
    return bad, nexec


def check_c16(prop, tier):
    res = common.Result(prop, tier)
    B = common.bounds(C16_BOUNDS, tier)
    res.bounds = dict(B)
    mixed = common.repo_mod("mixed")
    # ---- planner tables, entry by entry
    nontriv = 0
    wide = tuple(B["WIDE"])
    for n in list(range(1, 12)) + [B["NT"], wide]:
        if isinstance(n, tuple):
            n, s = n          # a wide table: large n, moderately many units
        else:
            s = max(n - 1, 0)
        try:
            tab = mixed.mixed_steps_tabulation(n, s)
        except Exception as e:  # noqa: BLE001
            res.violation({"cls": "tabulation", "code": "raises"},
                          f"mixed_steps_tabulation({n}, {s}) raised {e!r}",
                          common.write_replay(prop, "tabulation_raises", {
                              "property": prop, "kind": "c16_table", "n": n,
                              "s": s, "ni": n, "si": s}))
            continue
        for ni in range(1, n + 1):
            for si in range(0, s + 1):
                res.add(evaluations=1, states=1, transitions=1)
                t = tuple(int(x) for x in tab[ni, si])
                try:
                    m = mixed.mixed_step_memoization(ni, si)
                    m = (int(m[0]), int(m[1]), int(m[2]))
                except ValueError:
                    m = None
                except Exception as e:  # noqa: BLE001
                    m = ("raised", type(e).__name__, 0)
                if m is None:
                    ok = t[0] == 0 and t[2] < 0    # no plan in either
                else:
                    ok = (t == m)
                    if ni > si + 1 and si >= 2:
                        nontriv += 1
                if not ok:
                    rp = common.write_replay(prop, "table_entry", {
                        "property": prop, "kind": "c16_table", "n": n, "s": s,
                        "ni": ni, "si": si})
                    res.violation({"cls": "planner", "code": "table_entry"},
                                  f"sub-problem ({ni} steps, {si} units): "
                                  f"tabulated planner {t}, memoised planner "
                                  f"{m}", rp)
    # ---- the one-unit column for large n (O(n) table): magnitudes far beyond
    #      the small tables, e.g. costs above 2**31
    nb = B["NBIG"]
    try:
        tab = mixed.mixed_steps_tabulation(nb, 1)
    except Exception as e:  # noqa: BLE001
        tab = None
        res.violation({"cls": "tabulation", "code": "raises_large_n"},
                      f"mixed_steps_tabulation({nb}, 1) raised "
                      f"{type(e).__name__}: {e}",
                      common.write_replay(prop, "tabulation_large_n", {
                          "property": prop, "kind": "c16_table", "n": nb,
                          "s": 1, "ni": nb, "si": 1}))
    if tab is not None:
        for ni in range(1, nb + 1):
            res.add(evaluations=1, states=1, transitions=1)
            t = tuple(int(x) for x in tab[ni, 1])
            try:
                m = tuple(int(x) for x in mixed.mixed_step_memoization(ni, 1))
            except Exception as e:  # noqa: BLE001
                m = ("raised", type(e).__name__, 0)
            if t != m:
                res.violation({"cls": "planner", "code": "table_entry"},
                              f"sub-problem ({ni} steps, 1 unit): tabulated "
                              f"planner {t}, memoised planner {m}",
                              common.write_replay(prop, "table_entry", {
                                  "property": prop, "kind": "c16_table",
                                  "n": nb, "s": 1, "ni": ni, "si": 1}))
                break
        # and the first actions of the streams on both paths at that size
        big = D.Config("Mixed", (1, "DISK"), nb)
        heads = []
        for forced in (False, True):
            saved = mixed.numba
            if forced:
                mixed.numba = object()
            try:
                sc = D.build(big)
                acts = []
                try:
                    for _ in range(12):
                        acts.append(norm_action(next(sc)))
                except Exception as e:  # noqa: BLE001
                    acts.append(("RAISED", type(e).__name__))
            finally:
                mixed.numba = saved
            heads.append(acts)
        res.add(evaluations=1, traces_validated_against_impl=2)
        if heads[0] != heads[1]:
            res.violation({"cls": "Mixed", "code": "stream_differs"},
                          f"{big!r}: first actions differ: memoised "
                          f"{heads[0][:3]}, tabulated {heads[1][:3]}",
                          common.write_replay(prop, "Mixed_stream_differs", {
                              "property": prop, "kind": "c16_stream",
                              "config": big.as_json()}))

    # ---- streams on both code paths
    cfgs = []
    for n in range(1, B["NS"] + 1):
        for s in range(1 if n > 1 else 0, n + 2):
            for st in ("RAM", "DISK"):
                cfgs.append(D.Config("Mixed", (s, st), n))
    # integers handed over as numpy.int64 scalars and as 0-d numpy arrays
    # (mutable: an in-place `n += 1` inside a planner changes the caller's
    # and the schedule's own max_n)
    for n in range(1, min(B["NS"], 12) + 1):
        for s in range(1 if n > 1 else 0, n + 2):
            for fl in ("int64", "array0"):
                cfgs.append(D.Config("Mixed", (s, "DISK"), n, 1, fl))

    def worker(idxs):
        out = []
        for i in idxs:
            r0 = mixed_stream(cfgs[i], False)
            r1 = mixed_stream(cfgs[i], True)
            a0 = [norm_action(a) for a in r0.actions]
            a1 = [norm_action(a) for a in r1.actions]
            e0 = (r0.construct_exc, r0.stream_exc)
            e1 = (r1.construct_exc, r1.stream_exc)
            bad = None
            if a0 != a1 or e0 != e1:
                k = next((j for j, (x, y) in enumerate(zip(a0, a1)) if x != y),
                         min(len(a0), len(a1)))
                bad = (f"streams differ at action {k}: memoised "
                       f"{a0[k:k + 1]} {e0}, tabulated {a1[k:k + 1]} {e1}")
            m1 = r1.machine
            f1 = [f for f in r1.all_failures()] if m1 else []
            if bad is None and f1:
                bad = f"tabulated stream rejected by M: {f1[0].code}"
            out.append((i, bad, len(a0) + len(a1)))
        return out
    for part in common.pmap(worker, len(cfgs)):
        for i, bad, nact in part:
            res.add(evaluations=1, transitions=nact,
                    traces_validated_against_impl=2)
            if bad:
                cfg = cfgs[i]
                rp = common.write_replay(prop, "Mixed_stream_differs", {
                    "property": prop, "kind": "c16_stream",
                    "config": cfg.as_json()})
                res.violation({"cls": "Mixed", "code": "stream_differs"},
                              f"{cfg!r}: {bad}", rp)
    # ---- two Mixed objects alive at once on the tabulated path: A takes k
    #      actions, B is built and driven to the end, A continues (every k);
    #      both streams must be what the memoised path gives for them alone
    #      (a table that is a view of a shared buffer only shows here)
    small = [(n, s) for n in range(2, (8 if tier == "quick" else 11))
             for s in range(1, min(n, 4) + 1)]
    pair_tasks = [(a, b) for a in small for b in small]

    def pair_worker(idxs):
        out = []
        for i in idxs:
            bad, nexec = mixed_pair(pair_tasks[i][0], pair_tasks[i][1])
            out.append((i, bad, nexec))
        return out
    npair = 0
    for part in common.pmap(pair_worker, len(pair_tasks)):
        for i, bad, nexec in part:
            npair += nexec
            res.add(evaluations=nexec, transitions=nexec,
                    traces_validated_against_impl=2 * nexec)
            if bad:
                (na, sa), (nb, sb) = pair_tasks[i]
                rp = common.write_replay(prop, "Mixed_pair_differs", {
                    "property": prop, "kind": "c16_pair",
                    "a": [na, sa], "b": [nb, sb], "k": bad[0]})
                res.violation({"cls": "Mixed", "code": "pair_stream_differs"},
                              f"tabulated path: Mixed({na}, {sa}) takes "
                              f"{bad[0]} action(s), then Mixed({nb}, {sb}) is "
                              f"built and driven to the end, then the first "
                              f"continues: {bad[1]}", rp)
    res.counters["interleaved_pairs_on_tabulated_path"] = npair

    res.cov["distinct_nontrivial"] = nontriv
    res.cov["rule"] = ("every table entry (n_i<=n, s_i<=n-1) of "
                       "mixed_steps_tabulation(n, n-1) against "
                       "mixed_step_memoization, and every Mixed stream of the "
                       "box with the tabulated path forced on (mixed.numba "
                       "set to a sentinel; the njit fallback is the identity);"
                       " non-trivial = entries where the recurrence has a "
                       "real choice (n_i > s_i+1, s_i >= 2)")
    res.sample({"entry": {"n_i": 9, "s_i": 3,
                          "memo": [int(x) for x in
                                   mixed.mixed_step_memoization(9, 3)]}})
    res.assumptions = ["numba itself is not installed: the tabulated planner "
                       "runs as plain Python; int64 overflow semantics of "
                       "compiled code are not exercised"]
    return common.finish(res)


# ===========================================================================
# C19
# ===========================================================================
C19_BOUNDS = {"quick": dict(N=64, RAM=4), "thorough": dict(N=128, RAM=6)}


def c19_eval(cfg, m):
    run = D.drive(cfg, observers=False)
    if run.machine is None or run.stream_exc or run.ef_index is None:
        return ("no_stream", f"{run.construct_exc} {run.stream_exc}", 0, False)
    N = cfg.N
    ram = cfg.params[0]
    acts = run.actions
    l = N - 1
    want = [k * m for k in range(0, l // m + 2) if l - k * m > m]
    writes_fwd = [a.n0 for a in acts[:run.ef_index]
                  if isinstance(a, API.Forward) and a.storage == ST.DISK]
    if writes_fwd != want:
        return ("disk_write_positions",
                f"DISK writes in the forward sweep at {writes_fwd}, a period "
                f"of m={m} requires {want}", len(acts), False)
    for a in acts[run.ef_index:]:
        if (isinstance(a, API.Forward) and a.storage == ST.DISK) or \
                (isinstance(a, (API.Copy, API.Move))
                 and a.to_storage == ST.DISK):
            return ("disk_write_after_forward",
                    f"{a!r} writes to DISK after the forward sweep",
                    len(acts), False)
    loads = {}
    for a in acts:
        if isinstance(a, (API.Copy, API.Move)) and a.from_storage == ST.DISK:
            loads[a.n] = loads.get(a.n, 0) + 1
    for c in want:
        if loads.get(c, 0) != 1:
            return ("disk_checkpoint_reads",
                    f"DISK checkpoint {c} is read {loads.get(c, 0)} time(s)",
                    len(acts), False)
    if set(loads) - set(want):
        return ("disk_checkpoint_reads", f"reads of {sorted(loads)}",
                len(acts), False)
    # per segment forward steps
    bounds = want + [N] if want else [0, N]
    if want:
        segs = [(want[i], (want[i + 1] if i + 1 < len(want) else None))
                for i in range(len(want))]
        last_start = want[-1] + m
        segs = [(c, c + m) for c in want] + [(last_start, N)]
    else:
        segs = [(0, N)]
    steps = [0] * len(segs)
    for a in acts:
        if isinstance(a, API.Forward):
            j = next((i for i, (b0, b1) in enumerate(segs)
                      if b0 <= a.n0 and a.n1 <= b1), None)
            if j is None:
                return ("forward_crosses_segment",
                        f"{a!r} is not inside one segment of {segs}",
                        len(acts), False)
            steps[j] += a.n1 - a.n0
    for j, (b0, b1) in enumerate(segs):
        L = b1 - b0
        w = refs.binomial_total_steps(L, ram) + (L if j < len(segs) - 1 else 0)
        if steps[j] != w:
            return ("segment_steps",
                    f"segment [{b0},{b1}): {steps[j]} forward steps, "
                    f"memory-only optimum with {ram} units is {w}",
                    len(acts), False)
    return (None, "", len(acts), len(want) >= 2)


def check_c19(prop, tier):
    res = common.Result(prop, tier)
    B = common.bounds(C19_BOUNDS, tier)
    res.bounds = dict(B)
    costs = D.COSTS_QUICK if tier == "quick" else D.COSTS_ALL
    # memory-only optimum: validate the closed form on the state graph
    binomial_table(res, 9 if tier == "quick" else 12, B["RAM"])
    periods = {}
    for ram in range(1, B["RAM"] + 1):
        for cv in costs:
            m = refs.periodic_period(ram, cv)
            periods[(ram, cv)] = m
            # self-check of the closed form (reported, never a violation):
            # m = max argmin_x (wd + rd + x*uf + Opt0(x-1, ram)) / x
            uf, ub, wd, rd = (F(x) for x in cv)
            R = refs.RevolveRefs(3 * m + 6, ram, None, cv)
            best, arg = None, None
            for x in range(1, 3 * m + 6):
                v = (wd + rd + x * uf + R.o0[ram][x - 1]) / x
                if best is None or v <= best:
                    best, arg = v, x
            res.count("period_closed_form_is_argmin" if arg == m else
                      "period_closed_form_is_NOT_argmin")
    res.counters["periods"] = {f"ram={k[0]} costs={k[1]}": v
                               for k, v in periods.items()}
    cfgs = []
    for n in range(1, B["N"] + 1):
        for ram in range(1, B["RAM"] + 1):
            for cv in costs:
                cfgs.append(D.Config("PeriodicDiskRevolve", (ram,) + cv, n))

    # the same costs handed over in other numeric types: exact rationals
    # (among them ratios (wd+rd)/uf that *are* a binomial coefficient, where
    # the closed form sits on the boundary and float rounding of 0.3/0.1
    # would move the period), numpy.float64 scalars, 0-d numpy arrays
    # (mutable: an in-place update of a cost would show)
    typed = [(("1/10", "1/10", "3/20", "3/20"), "cF"),
             (("1/10", "1/10", "3/10", "3/10"), "cF"),
             (("1/3", "1/7", "2/3", "5/3"), "cF"),
             (("1/10", "3/10", "1/2", "1/2"), "cF"),
             ((1, 1, 2, 2), "cF"), ((1, 1, 2, 2), "cN"), ((1, 1, 2, 2), "cA"),
             ((2, 1, 1, 5), "cA"), ((1, 3, 20, 20), "cN")]
    res.bounds["typed_cost_vectors"] = [[list(map(str, cv)), fl]
                                        for cv, fl in typed]
    for ram in range(1, B["RAM"] + 1):
        for cv, fl in typed:
            periods[(ram, cv)] = refs.periodic_period(
                ram, tuple(D.exact_cost(x) for x in cv))
    for n in range(1, min(B["N"], 40) + 1):
        for ram in range(1, B["RAM"] + 1):
            for cv, fl in typed:
                cfgs.append(D.Config("PeriodicDiskRevolve", (ram,) + cv, n,
                                     1, fl))

    # siblings (same n and ram, all cost vectors) are evaluated by the same
    # worker back to back, in both orders
    groups = {}
    for i, c in enumerate(cfgs):
        groups.setdefault((c.N, c.params[0]), []).append(i)
    glist = list(groups.values())

    def worker(gidx):
        out = []
        for g in gidx:
            for i in glist[g] + glist[g][::-1]:
                out.append((i,) + c19_eval(
                    cfgs[i], periods[(cfgs[i].params[0],
                                      tuple(cfgs[i].params[1:]))]))
        return out
    nontriv = 0
    for part in common.pmap(worker, len(glist)):
        seen_ok = set()
        for i, code, msg, nact, nt in part:
            if code is None:
                if i in seen_ok:
                    continue
                seen_ok.add(i)
            cfg = cfgs[i]
            res.add(evaluations=1, transitions=nact, states=nact)
            if code is None:
                res.add(traces_validated_against_impl=1)
                nontriv += bool(nt)
            else:
                rp = common.write_replay(prop, f"Periodic_{code}", {
                    "property": prop, "kind": "c19", "config": cfg.as_json(),
                    "code": code, "msg": msg})
                res.violation({"cls": "PeriodicDiskRevolve", "code": code},
                              f"{cfg!r}: [{code}] {msg}", rp)
    # ---- guided deep confirmations: the period function for many RAM unit
    #      counts; every disagreement with the closed form is confirmed on a
    #      real PeriodicDiskRevolve stream before it counts
    pm = None
    try:
        pm = common.repo_mod("hrevolve_sequences.periodic_disk_revolve")
        fper = getattr(pm, "mxrr_close_formula", None)
    except Exception:  # noqa: BLE001
        fper = None
    CM = 160 if tier == "quick" else 400
    res.bounds["period_scan_ram_units"] = CM
    anomalies = []
    if fper is not None:
        for cm in range(1, CM + 1):
            for cv in costs:
                try:
                    got = int(fper(cm, cv[0], cv[3], cv[2]))
                except Exception:  # noqa: BLE001
                    continue
                want = refs.periodic_period(cm, cv)
                res.add(evaluations=1)
                if got != want:
                    anomalies.append((max(got, want), cm, cv, got, want))
        res.counters["period_scan_anomalies"] = len(anomalies)
        for _, cm, cv, got, want in sorted(anomalies)[:3]:
            for n in (min(got, want) + 2, 2 * max(got, want) + 3):
                cfg = D.Config("PeriodicDiskRevolve", (cm,) + cv, n)
                code, msg, nact, nt = c19_eval(cfg, want)
                res.add(evaluations=1, transitions=nact)
                if code is not None:
                    rp = common.write_replay(prop, f"Periodic_deep_{code}", {
                        "property": prop, "kind": "c19",
                        "config": cfg.as_json(), "code": code, "msg": msg})
                    res.violation({"cls": "PeriodicDiskRevolve", "code": code},
                                  f"{cfg!r}: [{code}] {msg} (found via the "
                                  f"period scan: library period {got}, closed "
                                  f"form {want})", rp)
                    break
    res.cov["distinct_nontrivial"] = nontriv
    res.cov["rule"] = ("every n <= N, ram, cost vector; non-trivial = streams "
                       "with at least two periodic DISK checkpoints")
    if nontriv == 0:
        res.harness_error("vacuous: no stream with two disk checkpoints")
    c = cfgs[-1]
    res.sample({"config": c.as_json(), "period": periods[(c.params[0],
                                                          tuple(c.params[1:]))],
                "trace_head": D.drive(c, observers=False).trace_repr()[:8]})
    res.assumptions = ["'more than m steps remain' counts steps of the "
                       "adjoint-computation graph (l = n-1), DESIGN 3.1",
                       "period from an independent exact-arithmetic rewrite "
                       "of the Aupy-Herrmann closed form"]
    return common.finish(res)


# ===========================================================================
def check(prop, tier):
    return {"C13": check_c13, "C14": check_c14, "C16": check_c16,
            "C19": check_c19}[prop](prop, tier)


def replay(prop, payload):
    k = payload["kind"]
    cfg = D.Config.from_json(payload["config"]) if "config" in payload else None
    bad = False
    if k == "c13":
        opt = lambda L, s: refs.binomial_total_steps(L, s)  # noqa: E731
        r = c13_eval(cfg, opt)
        print(cfg, r[:2])
        bad = r[0] is not None
    elif k == "c14":
        p, base = c14_replay_eval(cfg)
        print(cfg, p and p["label"], p and p["acc"], p and p["clash"])
        code = payload["code"]
        if p is None:
            bad = True
        elif code == "split_changes_stream":
            bad = p["erased"] != base["erased"]
        elif code == "position_changes_storage":
            bad = bool(p["clash"])
        else:
            npos = (max(p["acc"]) + 1) if p["acc"] else 0
            a = [p["acc"].get(d, 0) for d in range(npos)]
            kk = min(cfg.params[0], npos)
            disk_acc = sum(a[d] for d in range(npos)
                           if p["label"].get(d) == "DISK")
            nram = sum(1 for v in p["label"].values() if v == "RAM")
            bad = disk_acc != sum(sorted(a)[:npos - kk]) or nram > cfg.params[0]
    elif k == "c16_pair":
        b_, _n = mixed_pair(tuple(payload["a"]), tuple(payload["b"]),
                            payload["k"])
        print(payload, b_)
        bad = b_ is not None
    elif k == "c16_stream" and cfg.N > 2000:
        mixed = common.repo_mod("mixed")
        heads = []
        for forced in (False, True):
            saved = mixed.numba
            if forced:
                mixed.numba = object()
            try:
                acts = []
                try:
                    sc = D.build(cfg)
                    for _ in range(12):
                        acts.append(norm_action(next(sc)))
                except Exception as e:  # noqa: BLE001
                    acts.append(("RAISED", type(e).__name__))
            finally:
                mixed.numba = saved
            heads.append(acts)
        bad = heads[0] != heads[1]
        print(cfg, heads[0][:3], heads[1][:3])
    elif k == "c16_stream":
        r0 = mixed_stream(cfg, False)
        r1 = mixed_stream(cfg, True)
        bad = [norm_action(a) for a in r0.actions] != \
            [norm_action(a) for a in r1.actions]
        print(cfg, "differs" if bad else "equal")
    elif k == "c16_table":
        mixed = common.repo_mod("mixed")
        try:
            tab = mixed.mixed_steps_tabulation(payload["n"], payload["s"])
        except Exception as e:  # noqa: BLE001
            print(f"mixed_steps_tabulation raised {e!r}")
            print(f"VIOLATION property={prop} replay=(replayed)")
            return 1
        t = tuple(int(x) for x in tab[payload["ni"], payload["si"]])
        try:
            m = tuple(int(x) for x in
                      mixed.mixed_step_memoization(payload["ni"], payload["si"]))
        except ValueError:
            m = None
        print(t, m)
        bad = (t != m) if m is not None else not (t[0] == 0 and t[2] < 0)
    elif k == "c19":
        m = refs.periodic_period(cfg.params[0], tuple(cfg.params[1:]))
        r = c19_eval(cfg, m)
        print(cfg, "period", m, r[:2])
        bad = r[0] is not None
    if bad:
        print(f"VIOLATION property={prop} replay=(replayed)")
        return 1
    return 0
