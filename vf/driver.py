"""E2 -- implementation driver and environment enumerator.

Builds the real schedule object, plays the environment (chooses the true
number of steps N, calls finalize(N) exactly when a Forward reaches N, requests
K adjoint passes, keeps calling next() after exhaustion) and feeds every action
to the machine M.
"""
import sys
import traceback

from . import common
from .machine import Machine, ClassInfo, INF, FWD, REV, DONE

cs = common.bind_repo()
from checkpoint_schedules import StorageType  # noqa: E402
import checkpoint_schedules as API  # noqa: E402

RAM, DISK, WORK, NONE = (StorageType.RAM, StorageType.DISK, StorageType.WORK,
                         StorageType.NONE)

ONLINE = {"SingleMemory", "SingleDiskCopy", "SingleDiskMove", "NoneSchedule",
          "TwoLevel"}
REPEATABLE = {"SingleMemory", "SingleDiskCopy", "TwoLevel"}
REVOLVE_FAMILY = {"Revolve", "HRevolve", "DiskRevolve", "PeriodicDiskRevolve"}

ST = {"RAM": RAM, "DISK": DISK, "WORK": WORK, "NONE": NONE}


def st_name(s):
    return s.name if isinstance(s, StorageType) else repr(s)


class Config:
    """cls: one of the names below; params: tuple of plain python values;
    N: true number of steps; passes: adjoint passes requested."""
    __slots__ = ("cls", "params", "N", "passes", "np")

    def __init__(self, cls, params, N, passes=1, np=False):
        self.cls = cls
        self.params = tuple(params)
        self.N = N
        self.passes = passes
        # argument-type variant: False = plain Python numbers; True =
        # integers as numpy.int64; or a comma-separated string of flags:
        #   int64 / array0  integers as numpy.int64 / 0-d numpy arrays
        #   uint64 / uint8 / uint32a   unsigned numpy scalars / 0-d uint32 array
        #   cF / cN / cA    step costs as Fraction / numpy.float64 / 0-d array
        #   sub             the object is built from a trivial user subclass
        #   base            HRevolve via RevolveCheckpointSchedule + hrevolve()
        #   twin            an equal object is built first and asked for one
        #                   action (and stays alive) before this one is driven
        # (a cost given as a string "p/q" is that exact rational: only
        # meaningful together with cF)
        self.np = np

    def as_json(self):
        d = {"cls": self.cls, "params": list(self.params), "N": self.N,
             "passes": self.passes}
        if self.np:
            d["np"] = self.np
        return d

    @staticmethod
    def from_json(d):
        return Config(d["cls"], tuple(d["params"]), d["N"], d.get("passes", 1),
                      d.get("np", False))

    def __repr__(self):
        return (f"{self.cls}{self.params} N={self.N} passes={self.passes}"
                + (" [numpy ints]" if self.np is True else
                   f" [argument types: {self.np}]" if self.np else ""))

    def flags(self):
        if self.np is True:
            return {"int64"}
        return set(self.np.split(",")) if self.np else set()

    def key(self):
        return (self.cls, self.params, self.N, self.passes, self.np)


class ArgumentMutated(Exception):
    pass


class VariantUnavailable(Exception):
    """The argument/construction variant does not exist in this tree."""


def build(cfg):
    """Construct the real object (see _build) and make sure the constructor
    left the caller's (shared, possibly mutable) cost objects alone: if it
    updated one in place, the next schedule built from the same objects would
    silently be planned for other costs."""
    obj = _build(cfg)
    bad = [(k, v, o) for k, (v, o) in
           ((k, (k[1], o)) for k, o in list(_COST_OBJECTS.items()))
           if not (float(o) == float(v))]
    if bad:
        for k, _v, _o in bad:
            del _COST_OBJECTS[k]       # hand out a sound object next time
        k, v, o = bad[0]
        raise ArgumentMutated(
            f"constructing {cfg!r} changed a cost argument of the caller in "
            f"place: the object passed for the value {v} now holds {o!r}")
    return obj


def _build(cfg):
    """Construct the real object.  Parameter conventions:
    Multistage: (ram, disk, trajectory)      Mixed: (snapshots, storage)
    TwoLevel: (period, binomial_snapshots, storage, trajectory)
    Revolve/DiskRevolve/PeriodicDiskRevolve: (ram, uf, ub, wd, rd)
    HRevolve: (ram, disk, uf, ub, wd, rd)
    """
    c, p, N = cfg.cls, cfg.params, cfg.N
    fl = cfg.flags()
    A = SUB if "sub" in fl else API
    if fl & {"cF", "cN", "cA"} and c in REVOLVE_FAMILY:
        k = 2 if c == "HRevolve" else 1
        p = tuple(p[:k]) + tuple(typed_cost(x, fl) for x in p[k:k + 4]) \
            + tuple(p[k + 4:])
    if fl & {"int64", "array0", "uint64", "uint8", "uint32a"}:
        import numpy
        conv = (numpy.array if "array0" in fl else
                numpy.uint64 if "uint64" in fl else
                numpy.uint8 if "uint8" in fl else
                (lambda x: numpy.array(x, dtype=numpy.uint32))
                if "uint32a" in fl else numpy.int64)
        N = conv(N)
        p = tuple(conv(x) if isinstance(x, int)
                  and not isinstance(x, bool) else x for x in p)
    with common.quiet():
        if c == "SingleMemory":
            return A.SingleMemoryStorageSchedule()
        if c == "SingleDiskCopy":
            return A.SingleDiskStorageSchedule(move_data=False)
        if c == "SingleDiskMove":
            # p[0] (optional): another truthy flag value a caller may pass
            flag = True
            if p and p[0] == "int":
                flag = 1
            elif p and p[0] == "numpy":
                import numpy
                flag = numpy.bool_(True)
            return A.SingleDiskStorageSchedule(move_data=flag)
        if c == "NoneSchedule":
            return A.NoneCheckpointSchedule()
        if c == "Multistage":
            return A.MultistageCheckpointSchedule(N, p[0], p[1],
                                                    trajectory=p[2])
        if c == "Mixed":
            return A.MixedCheckpointSchedule(N, p[0], storage=ST[p[1]])
        if c == "TwoLevel":
            return A.TwoLevelCheckpointSchedule(
                p[0], p[1], binomial_storage=ST[p[2]],
                binomial_trajectory=p[3])
        if c == "Revolve":
            return A.Revolve(N, p[0], *p[1:])
        if c == "DiskRevolve":
            return A.DiskRevolve(N, p[0], *p[1:])
        if c == "PeriodicDiskRevolve":
            return A.PeriodicDiskRevolve(N, p[0], *p[1:])
        if c == "HRevolve" and "base" in fl:
            # the documented base class fed with an hrevolve() sequence
            # directly (what HRevolve.__init__ does); unavailable -> skipped
            try:
                from checkpoint_schedules.hrevolve_sequences import hrevolve
                base = common.repo_mod("hrevolve").RevolveCheckpointSchedule
                seq = list(hrevolve(N - 1, (p[0], p[1]), [0, p[4]],
                                    [0, p[5]], p[2], p[3]))
            except (ImportError, AttributeError, TypeError) as e:
                raise VariantUnavailable(str(e))
            return base(N, p[0], p[1], seq)
        if c == "HRevolve":
            return A.HRevolve(N, p[0], p[1], *p[2:])
    raise ValueError(c)


def _user_subclass(name, cls):
    """`class UserX(X)` with value semantics, as a user writes it who keeps
    schedules in sets / dict keys or compares configurations: equal
    constructor arguments -> equal and equally hashed objects."""
    def __init__(self, *a, **k):
        self._user_key = (type(self).__name__, repr(a),
                          repr(sorted(k.items())))
        cls.__init__(self, *a, **k)

    def __eq__(self, other):
        return type(other) is type(self) and \
            other._user_key == self._user_key

    def __hash__(self):
        return hash(self._user_key)
    return type("User" + name, (cls,), {"__init__": __init__,
                                        "__eq__": __eq__,
                                        "__hash__": __hash__})


class _SubAPI:
    """The schedule classes seen through a small user subclass
    (`class MySchedule(DiskRevolve): ...` with value-based __eq__/__hash__,
    see _user_subclass): ordinary use of a class
    hierarchy rooted in an ABC, and a place where per-class state set up by
    `__init_subclass__` or class keywords silently reverts to a default."""

    def __init__(self):
        self._cache = {}

    def __getattr__(self, name):
        cls = getattr(API, name)
        if isinstance(cls, type) and issubclass(cls, API.CheckpointSchedule):
            if name not in self._cache:
                self._cache[name] = _user_subclass(name, cls)
            return self._cache[name]
        return cls


SUB = _SubAPI()


def exact_cost(x):
    """The exact value of a cost parameter ("p/q" strings are rationals)."""
    if isinstance(x, str):
        from fractions import Fraction
        return Fraction(x)
    return x


_COST_OBJECTS = {}


def typed_cost(x, flags):
    """The cost value in the requested numeric type.  The *same object* is
    handed out for the same (type, value) throughout the process -- as a
    caller does who creates its cost parameters once and builds many
    schedules from them: a library that updates a mutable cost (a 0-d array)
    in place then feeds its own damage to the next construction."""
    from fractions import Fraction
    v = exact_cost(x)
    kind = next((f for f in ("cF", "cN", "cA") if f in flags), None)
    if kind is None:
        return v
    key = (kind, v)
    if key not in _COST_OBJECTS:
        import numpy
        _COST_OBJECTS[key] = (Fraction(v) if kind == "cF" else
                              numpy.float64(float(v)) if kind == "cN" else
                              numpy.array(float(v)))
    return _COST_OBJECTS[key]


def build_kw(cfg):
    """Construct the real object passing every argument by its documented
    keyword name."""
    c, p, N = cfg.cls, cfg.params, cfg.N
    with common.quiet():
        if c == "SingleMemory":
            return API.SingleMemoryStorageSchedule()
        if c == "SingleDiskCopy":
            return API.SingleDiskStorageSchedule(move_data=False)
        if c == "SingleDiskMove":
            return API.SingleDiskStorageSchedule(move_data=True)
        if c == "NoneSchedule":
            return API.NoneCheckpointSchedule()
        if c == "Multistage":
            return API.MultistageCheckpointSchedule(
                max_n=N, snapshots_in_ram=p[0], snapshots_on_disk=p[1],
                trajectory=p[2])
        if c == "Mixed":
            return API.MixedCheckpointSchedule(max_n=N, snapshots=p[0],
                                               storage=ST[p[1]])
        if c == "TwoLevel":
            return API.TwoLevelCheckpointSchedule(
                period=p[0], binomial_snapshots=p[1],
                binomial_storage=ST[p[2]], binomial_trajectory=p[3])
        if c in ("Revolve", "DiskRevolve", "PeriodicDiskRevolve"):
            return getattr(API, c)(max_n=N, snapshots_in_ram=p[0], uf=p[1],
                                   ub=p[2], wd=p[3], rd=p[4])
        if c == "HRevolve":
            return API.HRevolve(max_n=N, snapshots_in_ram=p[0],
                                snapshots_on_disk=p[1], uf=p[2], ub=p[3],
                                wd=p[4], rd=p[5])
    raise ValueError(c)


def class_info(cfg):
    c, p, N = cfg.cls, cfg.params, cfg.N
    if c == "SingleMemory":
        return ClassInfo(0, 0, None, multi_deps=True)
    if c == "SingleDiskCopy":
        return ClassInfo(0, N, None)
    if c == "SingleDiskMove":
        return ClassInfo(0, N, 1)
    if c == "NoneSchedule":
        return ClassInfo(0, 0, 0)
    if c == "Multistage":
        return ClassInfo(p[0], p[1], 1)
    if c == "Mixed":
        return ClassInfo(p[0] if p[1] == "RAM" else 0,
                         p[0] if p[1] == "DISK" else 0, 1)
    if c == "TwoLevel":
        blocks = -(-N // p[0]) if p[0] >= 1 else 0
        if p[2] == "RAM":
            return ClassInfo(p[1], blocks, None)
        return ClassInfo(0, blocks + p[1], None)
    if c == "Revolve":
        return ClassInfo(p[0], 0, 1)
    if c == "HRevolve":
        return ClassInfo(p[0], p[1], 1)
    if c in ("DiskRevolve", "PeriodicDiskRevolve"):
        return ClassInfo(p[0], INF, 1)
    raise ValueError(c)


def costs_of(cfg):
    """(uf, ub, wd, rd) of a Revolve-family configuration."""
    if cfg.cls == "HRevolve":
        return tuple(exact_cost(x) for x in cfg.params[2:6])
    if cfg.cls in REVOLVE_FAMILY:
        return tuple(exact_cost(x) for x in cfg.params[1:5])
    return (1, 1, 0, 0)


class Run:
    """Everything observed while driving one configuration."""

    def __init__(self, cfg):
        self.cfg = cfg
        self.actions = []          # the library's action objects
        self.machine = None
        self.failures = []         # machine guard failures
        self.obs = []              # driver-level failures (C08/C09/C11/C17...)
        self.construct_exc = None
        self.twin = None
        self.stream_exc = None     # (index, repr) exception in next()
        self.extra_next = []       # outcome of the post-exhaustion next() calls
        self.pass_slices = []      # (start, end) indices of each adjoint pass
        self.ef_index = None
        self.flags = []            # (index, is_exhausted, is_running)
        self.was_final = []        # max_n known when action i was emitted

    def obs_fail(self, props, code, msg, index=None, action=None):
        from .machine import Failure
        self.obs.append(Failure(tuple(props), code, msg,
                                len(self.actions) - 1 if index is None else index,
                                repr(action) if action is not None else ""))

    def all_failures(self):
        return sorted(self.failures + self.obs, key=lambda f: f.index)

    def trace_repr(self, upto=None):
        acts = self.actions if upto is None else self.actions[:upto + 1]
        return [repr(a) for a in acts]


MAX_ACTIONS = 2_000_000


def drive(cfg, observers=True, post_calls=3):
    """Drive one configuration through the machine."""
    run = Run(cfg)
    N = cfg.N
    info = class_info(cfg)
    try:
        if "twin" in cfg.flags():
            run.twin = build(cfg)
            try:
                with common.quiet():
                    next(run.twin)
            except Exception:  # noqa: BLE001
                pass
        sched = build(cfg)
    except Exception as e:  # noqa: BLE001
        run.construct_exc = f"{type(e).__name__}: {e}"
        return run
    M = Machine(N, info, API)
    run.machine = M
    online = cfg.cls in ONLINE

    def read_flags(where):
        """C09/C11 observer reads.  Returns (is_exhausted, is_running)."""
        ex = rn = None
        try:
            ex = sched.is_exhausted
        except Exception as e:  # noqa: BLE001
            run.obs_fail(["C09"], "is_exhausted_raises",
                         f"{where}: {type(e).__name__}: {e}")
        try:
            rn = sched.is_running
        except Exception as e:  # noqa: BLE001
            run.obs_fail(["C09"], "is_running_raises",
                         f"{where}: {type(e).__name__}: {e}")
        return ex, rn

    def query_storage(where):
        out = {}
        for t in (RAM, DISK, WORK, NONE):
            try:
                out[t] = bool(sched.uses_storage_type(t))
                # ... and by the documented parameter name
                kw = sched.uses_storage_type(storage_type=t)
                if bool(kw) != bool(out[t]):
                    run.obs_fail(["C11"], "keyword_call_differs",
                                 f"{where}: uses_storage_type({t!r}) is "
                                 f"{out[t]!r} but with storage_type= it is "
                                 f"{kw!r}")
            except Exception as e:  # noqa: BLE001
                out[t] = None
                run.obs_fail(["C11"], "uses_storage_type_raises",
                             f"{where}: uses_storage_type({t!r}) raised "
                             f"{type(e).__name__}: {e}")
        return out

    storage_answers = []
    if observers:
        # obtaining an iterator (what a for loop does first) requests no
        # action yet
        try:
            it = iter(sched)
            if it is not sched and not hasattr(it, "__next__"):
                run.obs_fail(["C09"], "iter_not_iterator",
                             f"iter(schedule) returned {type(it).__name__}", -1)
        except Exception as e:  # noqa: BLE001
            run.obs_fail(["C09", "C02"], "iter_raises",
                         f"iter(schedule) raised {type(e).__name__}: {e}", -1)
        ex, rn = read_flags("before first next()")
        if ex:
            run.obs_fail(["C09"], "exhausted_before_start",
                         "is_exhausted is True before any action", -1)
        if rn:
            run.obs_fail(["C09"], "running_before_start",
                         "is_running is True before the first action is "
                         "requested", -1)
        storage_answers.append(("before", query_storage("before first next()")))
        # C08 initial values
        if sched.n != 0 or sched.r != 0:
            run.obs_fail(["C08"], "initial_counters",
                         f"n={sched.n} r={sched.r} before the first action", -1)
        want = None if online else N
        if sched.max_n != want:
            run.obs_fail(["C08"], "initial_max_n",
                         f"max_n={sched.max_n}, expected {want}", -1)

    finalised = not online
    max_actions = min(MAX_ACTIONS,
                      60 * (N + 2) ** 2 * max(1, cfg.passes) + 1000)
    passes_wanted = cfg.passes
    permitted = info.passes
    pass_start = None
    prev_exhausted = False

    while True:
        # --- is the stream supposed to continue? -------------------------
        if M.phase == DONE:
            break
        if M.phase == REV and M.passes_done >= passes_wanted and M.r == 0 \
                and (permitted is None or M.passes_done < permitted) \
                and M.passes_done > 0:
            break   # repeatable class: we asked for `passes` calculations
        if len(run.actions) >= max_actions:
            run.obs_fail(["C02", "C17"], "no_termination",
                         f"{max_actions} actions without conclusion (generous "
                         "bound: 60*(N+2)^2 per pass)")
            break
        if len(run.obs) > 5000:
            break       # hopeless stream: enough has been recorded
        was_final = finalised
        try:
            with common.quiet():
                a = next(sched)
        except StopIteration:
            run.obs_fail(["C02", "C09", "C17"], "premature_stop",
                         f"StopIteration in phase {M.phase} with r={M.r}, "
                         f"passes done={M.passes_done}")
            run.stream_exc = (len(run.actions), "StopIteration")
            break
        except Exception as e:  # noqa: BLE001
            msg = f"{type(e).__name__}: {e}"
            run.stream_exc = (len(run.actions), msg)
            if len(run.actions) == 0:
                run.obs_fail(["C17"], "raises_at_first_next", msg)
            else:
                run.obs_fail(["C02", "C17"] + (["C09"] if M.passes_done >= 1
                                               else []),
                             "raises_midstream", msg)
            break
        run.actions.append(a)
        run.was_final.append(was_final)
        idx = len(run.actions) - 1
        fs = M.step(a, was_final)
        run.failures.extend(fs)

        if isinstance(a, API.EndForward):
            run.ef_index = idx
            pass_start = idx + 1
        if isinstance(a, API.EndReverse) and pass_start is not None:
            run.pass_slices.append((pass_start, idx + 1))
            pass_start = idx + 1

        # --- the executor reacts: finalisation ---------------------------
        if isinstance(a, API.Forward) and M.phase == FWD and M.fwd == N:
            try:
                # a fresh int object: equal to, but not identical with, any
                # integer the schedule holds
                if cfg.flags() & {"int64", "array0"}:
                    import numpy
                    sched.finalize(n=(numpy.array(N) if "array0" in cfg.flags()
                                      else numpy.int64(N)))
                else:
                    sched.finalize(n=int(str(N)))
                finalised = True
            except Exception as e:  # noqa: BLE001
                run.obs_fail(["C08", "C10"], "finalize_rejected",
                             f"finalize({N}) after {a!r} raised "
                             f"{type(e).__name__}: {e}", idx, a)
                finalised = True

        if not observers:
            continue
        # --- C08: counters -----------------------------------------------
        try:
            sn, sr, smax = sched.n, sched.r, sched.max_n
        except Exception as e:  # noqa: BLE001
            run.obs_fail(["C08"], "counter_raises", f"{type(e).__name__}: {e}",
                         idx, a)
            sn = sr = smax = None
        else:
            if M.fwd is not None and sn != M.fwd:
                run.obs_fail(["C08"], "n_mismatch",
                             f"schedule.n={sn} but the forward state is at "
                             f"{M.fwd}", idx, a)
            if sr != M.r:
                run.obs_fail(["C08"], "r_mismatch",
                             f"schedule.r={sr} but {M.r} steps are reversed "
                             f"(phase {M.phase}, passes done {M.passes_done})",
                             idx, a)
            want = N if finalised else None
            if smax != want:
                run.obs_fail(["C08"], "max_n_mismatch",
                             f"schedule.max_n={smax}, expected {want}", idx, a)
        # --- C09: flags ------------------------------------------------------
        ex, rn = read_flags(f"after action {idx}")
        run.flags.append((idx, ex, rn))
        if rn is not None and not rn:
            run.obs_fail(["C09"], "not_running_after_action",
                         "is_running is False after an action was requested",
                         idx, a)
        last_action = (M.phase == DONE)
        if ex is not None:
            if last_action and not ex:
                run.obs_fail(["C09"], "not_exhausted_after_last_action",
                             "is_exhausted is False although the final action "
                             "has been emitted", idx, a)
            if not last_action and ex:
                run.obs_fail(["C09"], "exhausted_while_actions_remain",
                             f"is_exhausted is True in phase {M.phase} "
                             f"(r={M.r}) while actions remain", idx, a)
        # --- C11 -------------------------------------------------------------
        if idx < 3 or isinstance(a, (API.EndForward, API.EndReverse)) \
                or idx % 7 == 0:
            storage_answers.append((idx, query_storage(f"after action {idx}")))

    # ---------------------------------------------------------------- after
    if M.phase == DONE or (permitted is None and run.stream_exc is None):
        if M.phase == DONE:
            for k in range(post_calls):
                try:
                    with common.quiet():
                        a = next(sched)
                    run.extra_next.append(repr(a))
                    run.obs_fail(["C02", "C09"], "action_after_conclusion",
                                 f"next() call {k + 1} after the final action "
                                 f"returned {a!r} instead of raising "
                                 "StopIteration", len(run.actions) + k, a)
                except StopIteration:
                    run.extra_next.append("StopIteration")
                except Exception as e:  # noqa: BLE001
                    run.extra_next.append(f"{type(e).__name__}")
                    run.obs_fail(["C02", "C09"], "wrong_exception_after_end",
                                 f"next() after the final action raised "
                                 f"{type(e).__name__}: {e}",
                                 len(run.actions) + k)
                if observers:
                    ex, rn = read_flags("after exhaustion")
                    if ex is not None and not ex:
                        run.obs_fail(["C09"], "not_exhausted_after_stop",
                                     "is_exhausted is False after "
                                     "StopIteration", len(run.actions) + k)
                    if rn is not None and not rn:
                        run.obs_fail(["C09"], "not_running_after_stop",
                                     "is_running is False after exhaustion",
                                     len(run.actions) + k)
    if observers:
        storage_answers.append(("end", query_storage("after the last action")))
        for t in (RAM, DISK):
            if t in M.touched:
                for where, ans in storage_answers:
                    if ans.get(t) is not None and not ans[t]:
                        run.obs_fail(["C11"], "under_reports",
                                     f"uses_storage_type({t!r}) is "
                                     f"{ans[t]!r} ({where}) but the stream "
                                     f"touches {t!r}", len(run.actions) - 1)
                        break
        # C09: each further calculation is an exact repeat of the first
        if len(run.pass_slices) > 1:
            first = [repr(x) for x in run.actions[slice(*run.pass_slices[0])]]
            for j, sl in enumerate(run.pass_slices[1:], start=2):
                other = [repr(x) for x in run.actions[slice(*sl)]]
                if other != first:
                    run.obs_fail(["C09"], "pass_differs",
                                 f"adjoint pass {j} is not a repeat of pass 1",
                                 sl[0])
                    break
        # C09: repeated passes must be executable (machine failures inside
        # pass >= 2 are charged to C09 as well)
        if len(run.pass_slices) > 1:
            lim = run.pass_slices[0][1]
            from .machine import Failure
            extra = []
            for f in run.failures:
                if f.index >= lim and "C09" not in f.props:
                    extra.append(Failure(f.props + ("C09",), f.code, f.msg,
                                         f.index, f.action))
                else:
                    extra.append(f)
            run.failures = extra
    return run


# ---------------------------------------------------------------------------
# cost alphabet (DESIGN section 2)
# ---------------------------------------------------------------------------
COSTS_ALL = [
    (1, 1, 2, 2),                                   # default
    # one-parameter neighbours of the default (a table or period cached on a
    # key that omits one cost is only visible between such neighbours)
    (3, 1, 2, 2), (1, 3, 2, 2), (1, 1, 5, 2), (1, 1, 2, 5),
    # uf != ub in both directions, wd != rd in both directions
    (1, 5, 1, 1), (5, 1, 1, 1), (2, 1, 1, 5), (1, 2, 3, 1), (3, 1, 7, 2),
    (1, 3, 0, 0),                                   # free disk
    (1, 1, 5, 0), (1, 1, 0, 5), (1, 1, 3, 4),       # asymmetric disk
    (1, 1, 10, 10), (1, 1, 20, 20),                 # dominant disk
    (3, 1, 20, 20), (1, 3, 20, 20),                 # ... with uf != ub
    (0.5, 1, 1.5, 0.25), (1.5, 2, 3, 1),            # dyadic non-integers
    # extreme magnitudes (exact powers of two): the property is stated for all
    # positive costs, and tolerance-based comparisons only show out here
    (2.0 ** -40, 2.0 ** -39, 3 * 2.0 ** -40, 2.0 ** -40),   # everything tiny
    (1, 2.0 ** 31, 2, 2),                                   # ub dominates
    (2.0 ** 31, 1, 2, 2),                                   # uf dominates
]
COSTS_QUICK = [COSTS_ALL[i] for i in (0, 1, 3, 4, 5, 6, 7, 10, 11, 12, 14, 16, 18,
                                      20, 21)]


def box(N_max, tier, classes=None, passes_max=None, costs=None):
    """The configuration box B(N) of DESIGN section 2 as a deterministic list."""
    quick = tier == "quick"
    P = 9 if quick else 13
    R = 4 if quick else 6
    D = 3 if quick else 5
    K = passes_max if passes_max is not None else (3 if quick else 5)
    costs = costs if costs is not None else (COSTS_QUICK if quick else COSTS_ALL)
    out = []

    def want(c):
        return classes is None or c in classes

    for n in range(1, N_max + 1):
        for c in ("SingleMemory", "SingleDiskCopy"):
            if want(c):
                for k in range(1, K + 1):
                    out.append(Config(c, (), n, k))
        if want("SingleDiskMove"):
            out.append(Config("SingleDiskMove", (), n, 1))
            if n <= 6:
                out.append(Config("SingleDiskMove", ("int",), n, 1))
                out.append(Config("SingleDiskMove", ("numpy",), n, 1))
        if want("NoneSchedule"):
            out.append(Config("NoneSchedule", (), n, 1))
        if want("Multistage"):
            for ram in range(0, n + 2):
                for disk in range(0, n + 2 - ram):
                    if ram + disk < 1:
                        if n > 1:
                            continue
                    for traj in ("maximum", "revolve"):
                        out.append(Config("Multistage", (ram, disk, traj), n))
        if want("Mixed"):
            lo = 0 if n == 1 else 1
            for s in range(lo, n + 2):
                for st in ("RAM", "DISK"):
                    out.append(Config("Mixed", (s, st), n))
        if want("TwoLevel"):
            for period in range(1, P + 1):
                for bs in (0, 1, 2, 4):
                    for st in ("RAM", "DISK"):
                        for traj in ("maximum", "revolve"):
                            for k in ((1, K) if (quick and n > 8) else
                                      range(1, K + 1)):
                                out.append(Config("TwoLevel",
                                                  (period, bs, st, traj), n, k))
        for c in ("Revolve", "DiskRevolve", "PeriodicDiskRevolve"):
            if want(c):
                for ram in range(1, min(n + 1, R) + 1):
                    for cv in costs:
                        out.append(Config(c, (ram,) + tuple(cv), n))
        if want("HRevolve"):
            for ram in range(1, min(n + 1, R) + 1):
                for disk in range(0, D + 1):
                    for cv in costs:
                        out.append(Config("HRevolve", (ram, disk) + tuple(cv), n))
    return out


def box_deep(N_lo, N_hi, tier):
    """Second layer of the box: larger n (N_lo < n <= N_hi) with a thinner but
    still exhaustive-in-(n, s) parameter set -- every total unit count, three
    RAM/DISK splits, both trajectories; Mixed every s; the Revolve family with
    1..3 RAM units and three cost vectors; TwoLevel with long periods."""
    quick = tier == "quick"
    out = []
    cvs = [COSTS_ALL[0], COSTS_ALL[7], COSTS_ALL[11]]
    for n in range(N_lo + 1, N_hi + 1):
        for s in range(1, n):
            splits = sorted({(s, 0), (0, s), (s // 2, s - s // 2)})
            for ram, disk in splits:
                for traj in ("maximum", "revolve"):
                    out.append(Config("Multistage", (ram, disk, traj), n))
            out.append(Config("Mixed", (s, "DISK" if s % 2 else "RAM"), n))
        for period in (7, 11, 16, 25):
            if period > n + 3:
                continue
            for bs in (1, 3):
                for traj in ("maximum", "revolve"):
                    out.append(Config("TwoLevel", (period, bs, "RAM", traj),
                                      n, 2))
        for ram in (1, 2, 3, 7, 15):
            if ram > 3 and n < 2 * ram:
                continue
            for cv in (cvs if ram <= 3 else cvs[:1]):
                for c in ("Revolve", "DiskRevolve", "PeriodicDiskRevolve"):
                    out.append(Config(c, (ram,) + tuple(cv), n))
                for disk in ((1, 3) if quick else (0, 1, 2, 3)):
                    out.append(Config("HRevolve", (ram, disk) + tuple(cv), n))
        for c in ("SingleMemory", "SingleDiskCopy", "SingleDiskMove"):
            out.append(Config(c, (), n, 2 if c != "SingleDiskMove" else 1))
    return out


def box_large(tier):
    """Magnitude layer: a few configurations per class at step counts beyond
    interpreter/encoding boundaries (small-int cache at 256, 2**16), where a
    comparison by identity or a packed key starts to fail.  Thorough only for
    the 2**16 sentinels (seconds each)."""
    d = COSTS_ALL[0]
    out = []
    Ns = (257, 300) if tier == "quick" else (257, 300, 1000)
    for n in Ns:
        for c in ("SingleMemory", "SingleDiskCopy"):
            out.append(Config(c, (), n, 2))
        out.append(Config("SingleDiskMove", (), n, 1))
        out.append(Config("NoneSchedule", (), n, 1))
        out.append(Config("Multistage", (3, 2, "maximum"), n))
        out.append(Config("Multistage", (0, 4, "revolve"), n))
        out.append(Config("Mixed", (5, "DISK"), n))
        out.append(Config("TwoLevel", (100, 2, "RAM", "maximum"), n, 2))
        out.append(Config("TwoLevel", (7, 3, "DISK", "revolve"), n, 2))
        out.append(Config("TwoLevel", (129, 0, "DISK", "maximum"), n, 2))
        out.append(Config("TwoLevel", (200, 1, "RAM", "revolve"), n, 2))
        out.append(Config("Revolve", (5,) + d, n))
        out.append(Config("HRevolve", (3, 2) + d, n))
        out.append(Config("DiskRevolve", (2,) + d, n))
        out.append(Config("PeriodicDiskRevolve", (2,) + d, n))
    # integers handed over as numpy.int64 (what array code passes around)
    for n in (3, 12):
        out.append(Config("Multistage", (2, 1, "maximum"), n, 1, True))
        out.append(Config("Mixed", (2, "DISK"), n, 1, True))
        out.append(Config("TwoLevel", (3, 1, "RAM", "maximum"), n, 2, True))
        out.append(Config("Revolve", (2,) + d, n, 1, True))
        out.append(Config("HRevolve", (1, 1) + d, n, 1, True))
        out.append(Config("DiskRevolve", (1,) + d, n, 1, True))
        out.append(Config("PeriodicDiskRevolve", (1,) + d, n, 1, True))
        out.append(Config("SingleDiskCopy", (), n, 2, True))
        out.append(Config("SingleMemory", (), n, 2, True))
    # ... and as 0-d numpy arrays (integer-like but mutable), offline classes
    for n in (3, 12):
        out.append(Config("Multistage", (2, 1, "maximum"), n, 1, "array0"))
        out.append(Config("Mixed", (2, "DISK"), n, 1, "array0"))
        out.append(Config("Revolve", (2,) + d, n, 1, "array0"))
        out.append(Config("HRevolve", (1, 1) + d, n, 1, "array0"))
        out.append(Config("DiskRevolve", (1,) + d, n, 1, "array0"))
        out.append(Config("PeriodicDiskRevolve", (1,) + d, n, 1, "array0"))
    # ... and every class through a trivial user subclass
    for n in (3, 12):
        out.append(Config("Multistage", (2, 1, "maximum"), n, 1, "sub"))
        out.append(Config("Mixed", (2, "DISK"), n, 1, "sub"))
        out.append(Config("Mixed", (2, "RAM"), n, 1, "sub"))
        out.append(Config("TwoLevel", (3, 1, "RAM", "maximum"), n, 2, "sub"))
        out.append(Config("TwoLevel", (3, 1, "DISK", "revolve"), n, 2, "sub"))
        out.append(Config("Revolve", (2,) + d, n, 1, "sub"))
        out.append(Config("HRevolve", (1, 1) + d, n, 1, "sub"))
        out.append(Config("HRevolve", (1, 0) + d, n, 1, "sub"))
        out.append(Config("DiskRevolve", (1,) + d, n, 1, "sub"))
        out.append(Config("PeriodicDiskRevolve", (1,) + d, n, 1, "sub"))
        out.append(Config("SingleDiskCopy", (), n, 2, "sub"))
        out.append(Config("SingleDiskMove", (), n, 1, "sub"))
        out.append(Config("SingleMemory", (), n, 2, "sub"))
        out.append(Config("NoneSchedule", (), n, 1, "sub"))
        # ... two equal live objects of such a subclass
        out.append(Config("Multistage", (2, 1, "maximum"), n, 1, "sub,twin"))
        out.append(Config("Mixed", (2, "DISK"), n, 1, "sub,twin"))
        out.append(Config("TwoLevel", (3, 1, "RAM", "maximum"), n, 2, "sub,twin"))
        out.append(Config("Revolve", (2,) + d, n, 1, "sub,twin"))
        out.append(Config("HRevolve", (1, 1) + d, n, 1, "sub,twin"))
        out.append(Config("DiskRevolve", (1,) + d, n, 1, "sub,twin"))
        out.append(Config("PeriodicDiskRevolve", (1,) + d, n, 1, "sub,twin"))
        out.append(Config("SingleDiskCopy", (), n, 2, "sub,twin"))
        out.append(Config("SingleDiskMove", (), n, 1, "sub,twin"))
        out.append(Config("SingleMemory", (), n, 2, "sub,twin"))
    # ... the documented base class of the Revolve family used directly
    for n in (3, 7, 12):
        for rd_ in ((1, 1), (2, 1), (1, 2)):
            out.append(Config("HRevolve", rd_ + d, n, 1, "base"))
        out.append(Config("HRevolve", (1, 1, 1, 1, 0, 0), n, 1, "base"))
    # ... long blocks with a two-digit number of units (string-built keys,
    # digit-count coincidences: (21, 5) and (2, 15) both read "215")
    for per, bs in ((1000, 14), (1000, 15), (1000, 16), (1000, 24),
                    (817, 14), (1500, 16), (1500, 21)):
        out.append(Config("TwoLevel", (per, bs, "RAM", "maximum"), per, 1))
    out.append(Config("TwoLevel", (1000, 15, "DISK", "revolve"), 1000, 1))
    out.append(Config("Multistage", (0, 15, "maximum"), 1000))
    out.append(Config("Multistage", (3, 12, "maximum"), 1000))
    out.append(Config("Multistage", (0, 21, "revolve"), 1500))
    out.append(Config("Mixed", (15, "DISK"), 1000))
    # many adjoint calculations on one object ("arbitrarily many")
    many = 1300 if tier == "quick" else 3500
    out.append(Config("SingleMemory", (), 1, many))
    out.append(Config("SingleMemory", (), 3, many))
    out.append(Config("SingleDiskCopy", (), 1, many))
    out.append(Config("SingleDiskCopy", (), 2, many))
    out.append(Config("TwoLevel", (1, 0, "DISK", "maximum"), 1, many))
    out.append(Config("TwoLevel", (3, 1, "RAM", "maximum"), 4, many))
    if tier != "quick":
        out.append(Config("PeriodicDiskRevolve", (3,) + d, 65600))
        out.append(Config("PeriodicDiskRevolve", (2,) + d, 65545))
        out.append(Config("SingleDiskCopy", (), 66000, 2))
        out.append(Config("SingleMemory", (), 66000, 2))
        out.append(Config("Multistage", (3, 3, "maximum"), 66000))
        out.append(Config("TwoLevel", (300, 2, "RAM", "maximum"), 66000))
    return out


def group_key(cfg):
    """Configurations that differ only in a parameter a careless memo key
    could omit (cost vector, RAM/DISK split, storage, trajectory, passes) form
    one group: they are driven by the same worker, back to back."""
    if cfg.cls == "HRevolve":
        return (cfg.cls, cfg.N, cfg.params[:2])
    if cfg.cls in REVOLVE_FAMILY:
        # the three classes with the signature (max_n, ram, costs) together:
        # a table keyed on the arguments but not on the algorithm
        return ("revolve3", cfg.N, cfg.params[:1])
    if cfg.cls == "Multistage":      # all RAM/DISK splits of one total, both
        # trajectories (batch h: a memo keyed without the trajectory)
        return (cfg.cls, cfg.N, cfg.params[0] + cfg.params[1])
    if cfg.cls == "Mixed":           # both storages
        return (cfg.cls, cfg.N, cfg.params[0])
    if cfg.cls == "TwoLevel":        # units / storage / trajectory variants
        return (cfg.cls, cfg.N, cfg.params[0])
    return (cfg.cls, cfg.N, cfg.params)


def twin_order(configs, idxs):
    """Third pass over a small group that mixes Revolve, DiskRevolve and
    PeriodicDiskRevolve: per cost vector DiskRevolve, Revolve,
    PeriodicDiskRevolve, Revolve -- objects of different classes built from
    *equal* arguments directly after one another, each way round."""
    c0 = configs[idxs[0]]
    if group_key(c0)[0] != "revolve3" or c0.N > 10 or \
            len({configs[i].cls for i in idxs}) < 2:
        return []
    by = {}
    for i in idxs:
        by.setdefault(configs[i].params[1:], {})[configs[i].cls] = i
    out = []
    for cv in by:
        m = by[cv]
        for cls in ("DiskRevolve", "Revolve", "PeriodicDiskRevolve", "Revolve"):
            if cls in m:
                out.append(m[cls])
    return out


def run_box(configs, reducer, jobs=None, observers=True, orders=1):
    """Drive every configuration in parallel.  Static, deterministic
    partition: groups (see group_key) are dealt round-robin to the workers.
    `reducer` maps a Run to a small picklable summary.

    orders=1: returns one summary per configuration.
    orders=2: every group with more than one member is driven a second time in
    reverse order (same process, right after the first time), so that a result
    that depends on which sibling came first is seen -- and small groups of
    the three (max_n, ram, costs) classes a third time in twin order, see
    twin_order(); returns a list of summaries per configuration."""
    groups = {}
    for i, c in enumerate(configs):
        groups.setdefault(group_key(c), []).append(i)
    glist = list(groups.values())

    def worker(gidx):
        out = []
        for g in gidx:
            idxs = glist[g]
            for i in idxs:
                out.append((i, reducer(drive(configs[i], observers=observers))))
            if orders > 1 and len(idxs) > 1:
                for i in reversed(idxs):
                    out.append((i, reducer(drive(configs[i],
                                                 observers=observers))))
                for i in twin_order(configs, idxs):
                    out.append((i, reducer(drive(configs[i],
                                                 observers=observers))))
        return out
    parts = common.pmap(worker, len(glist), jobs)
    out = [[] for _ in configs]
    for part in parts:
        for i, s in part:
            out[i].append(s)
    if orders == 1:
        return [o[0] for o in out]
    return out
