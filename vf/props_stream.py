"""Stream properties decided by trace inclusion in M over the box B(N):
C01, C02, C03, C04, C08, C09 (stream part), C11, C12."""
from . import common
from . import driver as D

BOUNDS = {"quick": 24, "thorough": 48}
DEEP = {"quick": 56, "thorough": 112}


def box_bounds(tier):
    return (common.bound("BOX_N", BOUNDS[tier]),
            common.bound("BOX_DEEP", DEEP[tier]),
            common.bound("BOX_LARGE", 1))


def full_box(tier):
    N, deep, large = box_bounds(tier)
    out = D.box(N, tier)
    if deep > N:
        out += D.box_deep(N, deep, tier)
    if large:
        out += D.box_large(tier)
    return out

RULES = {
    "C01": "configurations whose stream loads at least one checkpoint "
           "(Copy/Move to WORK), i.e. where availability guards can bite",
    "C02": "configurations with N >= 2 and at least one recomputation "
           "(a Forward after EndForward)",
    "C03": "configurations in which a declared budget (>0) is reached exactly",
    "C04": "configurations that wrote at least one checkpoint to RAM/DISK",
    "C08": "configurations whose forward position moves backwards at least once",
    "C09": "configurations with >= 2 adjoint passes, or reaching exhaustion",
    "C11": "configurations whose stream touches RAM or DISK",
    "C12": "configurations that load a checkpoint and recompute",
}


def nontrivial(prop, run):
    M = run.machine
    if M is None:
        return False
    loads = M.ram_loads + M.disk_loads
    if prop == "C01":
        return loads > 0
    if prop == "C02":
        return run.cfg.N >= 2 and M.fwd_steps > run.cfg.N
    if prop == "C03":
        i = M.info
        return (0 < i.b_ram == M.max_ram) or (0 < i.b_disk == M.max_disk)
    if prop == "C04":
        return (M.ram_writes + M.disk_writes) > 0
    if prop == "C08":
        return loads > 0
    if prop == "C09":
        return len(run.pass_slices) >= 2 or M.phase == D.DONE
    if prop == "C11":
        return bool(M.touched)
    if prop == "C12":
        return loads > 0 and M.fwd_steps > run.cfg.N
    return True


def suite_disagreement(run):
    """Differential self-check of M against a port of the repository's own
    reference executor (tests/test_validity.py): if that executor rejects
    the stream (up to the first EndReverse), M must have rejected it too."""
    from .suite_exec import suite_accepts
    M = run.machine
    if M is None or not run.actions:
        return None
    info = M.info
    lim = {D.RAM: None if info.b_ram == D.INF else info.b_ram,
           D.DISK: None if info.b_disk == D.INF else info.b_disk}
    data_limit = run.cfg.N if info.multi_deps else 1
    ok, msg = suite_accepts(D.API, run.actions, run.cfg.N, lim, data_limit,
                            run.was_final)
    if ok:
        return None
    end = next((i for i, a in enumerate(run.actions)
                if isinstance(a, D.API.EndReverse)), len(run.actions))
    if any(f.index <= end for f in run.failures):
        return None
    return msg


def make_reducer(prop):
    def red(run):
        M = run.machine
        fails = [f for f in run.all_failures() if prop in f.props]
        first = fails[0] if fails else None
        out = {
            "states": len(M.state_keys) if M else 0,
            "transitions": M.transitions if M else 0,
            "nontriv": nontrivial(prop, run),
            "built": M is not None,
            "construct_exc": run.construct_exc,
            "fail": None,
            "nfail": len(fails),
            "suite": suite_disagreement(run) if prop == "C01" else None,
        }
        if first is not None:
            out["fail"] = {"props": list(first.props), "code": first.code,
                           "msg": first.msg, "index": first.index,
                           "action": first.action,
                           "trace": run.trace_repr(first.index)[-25:]}
        return out
    return red


def merge_orders(outs):
    """One summary per configuration from the summaries of both sibling
    orders: the first one that carries a failure, else the first."""
    merged = []
    for lst in outs:
        pick = next((o for o in lst if o["fail"] is not None), lst[0])
        if len(lst) > 1:
            pick = dict(pick)
            pick["states"] = sum(o["states"] for o in lst)
            pick["transitions"] = sum(o["transitions"] for o in lst)
        merged.append(pick)
    return merged


def optimized_pass(prop, tier):
    """The same library, imported by an interpreter started with -O (asserts
    stripped): a small box is driven there and the failures tagged `prop`
    come back as JSON.  (A side effect hidden in an assert statement only
    shows in such an interpreter.)"""
    import json
    import os
    import subprocess
    import sys
    code = ("import sys, json; sys.path.insert(0, %r); "
            "from vf import props_stream as P; "
            "print('OPT ' + json.dumps(P.small_box_failures(%r, %r)))"
            % (common.VERIF_DIR, prop, tier))
    env = dict(os.environ, PYTHONHASHSEED="0", VERIF_REPO=common.REPO,
               VERIF_JOBS="4")
    p = subprocess.run([sys.executable, "-O", "-c", code], env=env, text=True,
                       capture_output=True, timeout=1800)
    line = [x for x in p.stdout.splitlines() if x.startswith("OPT ")]
    if not line:
        return None, p.stderr[-600:]
    return json.loads(line[-1][4:]), None


def small_box_failures(prop, tier):
    """Runs inside the -O interpreter."""
    import sys
    N = common.bound("BOX_O", 10 if tier == "quick" else 16)
    cfgs = D.box(N, "quick")
    out = D.run_box(cfgs, make_reducer(prop))
    bad = []
    for cfg, o in zip(cfgs, out):
        if o["fail"] is not None and len(bad) < 20:
            bad.append({"config": cfg.as_json(), "failure": o["fail"]})
        elif not o["built"] and len(bad) < 20:
            bad.append({"config": cfg.as_json(),
                        "failure": {"code": "construction_failed_under_O",
                                    "msg": str(o["construct_exc"]),
                                    "index": -1, "action": "", "props": [],
                                    "trace": []}})
    return {"optimize_flag": sys.flags.optimize, "configs": len(cfgs),
            "transitions": sum(o["transitions"] for o in out), "bad": bad}


def sample_of(cfg):
    run = D.drive(cfg)
    return {"config": cfg.as_json(), "actions": len(run.actions),
            "trace_head": run.trace_repr()[:14]}


def check(prop, tier):
    res = common.Result(prop, tier)
    N, deep, _large = box_bounds(tier)
    cfgs = full_box(tier)
    res.bounds = {"N_max": N, "N_deep_layer": deep,
                  "configs": len(cfgs), "tier": tier,
                  "passes_max": 3 if tier == "quick" else 5}
    out = merge_orders(D.run_box(cfgs, make_reducer(prop), orders=2))
    unbuilt = 0
    nontriv = 0
    for cfg, o in zip(cfgs, out):
        res.add(states=o["states"], transitions=o["transitions"],
                evaluations=1)
        if not o["built"]:
            unbuilt += 1
            continue
        res.add(traces_validated_against_impl=1)
        if o["nontriv"]:
            nontriv += 1
        if o.get("suite"):
            res.harness_error(f"M accepted {cfg!r} but the repository's own "
                              f"reference executor rejects it: {o['suite']}")
        elif prop == "C01":
            res.count("streams_cross_checked_with_suite_executor")
        if o["fail"] is not None:
            f = o["fail"]
            key = {"cls": cfg.cls, "code": f["code"]}
            name = f"{cfg.cls}_{f['code']}"
            gk = D.group_key(cfg)
            payload = {"property": prop, "kind": "stream",
                       "config": cfg.as_json(), "failure": f,
                       # the siblings driven by the same worker, in order (a
                       # failure may depend on what was built before)
                       "group": [c.as_json() for c in cfgs
                                 if D.group_key(c) == gk]}
            # replay file only for the first occurrence of each key
            if common.match_known(prop, key) is None:
                rp = common.write_replay(prop, name, payload) \
                    if not any(v["key"] == key for v in res.violations) \
                    else next(v["replay"] for v in res.violations
                              if v["key"] == key)
            else:
                rp = None
            res.violation(key, f"{cfg!r}: [{f['code']}] {f['msg']} at action "
                               f"{f['index']} {f['action']}", rp)
    # ---- the same box (small) under `python -O`
    opt, err = optimized_pass(prop, tier)
    if opt is None or opt.get("optimize_flag", 0) < 1:
        res.harness_error(f"-O pass did not run: {err}")
    else:
        res.add(evaluations=opt["configs"], transitions=opt["transitions"],
                traces_validated_against_impl=opt["configs"])
        res.counters["configs_driven_under_python_O"] = opt["configs"]
        for b in opt["bad"]:
            cfg = D.Config.from_json(b["config"])
            f = b["failure"]
            if f["code"] == "construction_failed_under_O" and \
                    prop not in ("C17", "C01", "C02"):
                continue
            key = {"cls": cfg.cls, "code": f["code"], "interpreter": "-O"}
            rp = common.write_replay(prop, f"{cfg.cls}_{f['code']}_optimized", {
                "property": prop, "kind": "stream", "config": cfg.as_json(),
                "failure": f, "interpreter_flags": "-O"})
            res.violation(key, f"{cfg!r} under python -O: [{f['code']}] "
                               f"{f['msg']} at action {f['index']} "
                               f"{f['action']}", rp)
    res.cov["distinct_nontrivial"] = nontriv
    res.cov["rule"] = ("every configuration of the box B(N) (DESIGN section 2) "
                       "is driven through the real generator and replayed "
                       "through the machine M; non-trivial = " + RULES[prop])
    res.counters["unbuildable_configs"] = unbuilt
    if nontriv == 0:
        res.harness_error("vacuous: no non-trivial configuration")
    s = common.seed()
    picks = [cfgs[(s * 7919 + k * 104729) % len(cfgs)] for k in range(3)]
    for c in picks:
        try:
            res.sample(sample_of(c))
        except Exception as e:  # noqa: BLE001
            res.sample({"config": c.as_json(), "error": repr(e)})
    res.assumptions = [
        "the solver interprets actions as the machine M of DESIGN section 3.1",
        f"bounds: N <= {N}; unit counts, periods, cost alphabet as in "
        "DESIGN section 2; nothing is claimed beyond them",
    ]
    return common.finish(res)


def replay(prop, payload):
    import sys
    if payload.get("interpreter_flags") == "-O" and sys.flags.optimize < 1:
        import json
        import os
        import subprocess
        import tempfile
        with tempfile.NamedTemporaryFile("w", suffix=".json",
                                         delete=False) as f:
            json.dump(payload, f)
        r = subprocess.run([sys.executable, "-O",
                            os.path.join(common.VERIF_DIR, "check"), prop,
                            "--replay", f.name])
        os.unlink(f.name)
        return r.returncode
    cfg = D.Config.from_json(payload["config"])
    run = D.drive(cfg)
    fails = [f for f in run.all_failures() if prop in f.props]
    print(f"replay {cfg!r}: {len(run.actions)} actions, "
          f"{len(fails)} failure(s) tagged {prop}")
    for f in fails[:5]:
        print(f"  [{f.code}] {f.msg} at action {f.index} {f.action}")
    if fails:
        print(f"VIOLATION property={prop} replay=(replayed)")
        return 1
    group = [D.Config.from_json(c) for c in payload.get("group", [])]
    if len(group) > 1:
        # not reproduced alone: drive the sibling group as the check did
        # (forward, reverse, twin order) in this one process
        idxs = list(range(len(group)))
        order = idxs + idxs[::-1] + D.twin_order(group, idxs)
        for n, i in enumerate(order):
            run = D.drive(group[i])
            if group[i].key() != cfg.key():
                continue
            fails = [f for f in run.all_failures() if prop in f.props]
            if fails:
                prev = [repr(group[j]) for j in order[max(0, n - 3):n]]
                print(f"replay {cfg!r} as member {n} of its sibling group "
                      f"(directly after {prev}): {len(fails)} failure(s) "
                      f"tagged {prop}")
                for f in fails[:5]:
                    print(f"  [{f.code}] {f.msg} at action {f.index} "
                          f"{f.action}")
                print(f"VIOLATION property={prop} replay=(replayed)")
                return 1
        print("sibling group replayed without a failure")
    return 0
