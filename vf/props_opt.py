"""Optimality properties decided by explicit-state minimum-cost search:
C05 (binomial), C06 (mixed), C07 (H-Revolve family cost optimum).

Tier A: the complete state graph of M per instance (vf/search.py).
Tier B: reference recurrences (vf/refs.py), first validated against tier A on
the whole overlap in the same run, then used for larger n.
"""
import importlib
import sys

sys.setrecursionlimit(20000)
from fractions import Fraction

from . import common
from . import driver as D
from . import refs
from . import search as S

API = D.API


def F(x):
    return Fraction(x)


def _solve_task(task):
    """task: (tag, Problem kwargs) -> result dict (runs in a worker)."""
    tag, kw = task
    P = S.Problem(**kw)
    o = S.solve(P)
    ok, cost, codes, relaxed = S.validate_witness(P, o["path"], API)
    head = [repr(a) for a in S.witness_actions(P, o["path"], API)[:10]]
    return {"tag": tag, "opt": o["opt"], "states": o["states"],
            "transitions": o["transitions"], "w_ok": ok, "w_cost": cost,
            "w_codes": codes, "w_relaxed": relaxed, "w_head": head}


def run_searches(res, tasks):
    outs = common.pmap_dynamic(_solve_task, tasks)
    table = {}
    for o in outs:
        res.add(states=o["states"], transitions=o["transitions"],
                traces_validated_against_impl=1)
        res.count("searches")
        if not o["w_ok"] or o["w_cost"] != o["opt"]:
            res.harness_error(f"search witness for {o['tag']} rejected by M: "
                              f"{o['w_codes']} cost {o['w_cost']} vs "
                              f"{o['opt']}")
        if o["w_relaxed"]:
            res.count("witnesses_needing_relaxed_coverage")
        table[o["tag"]] = o
    return table


def _raw_task(task):
    from . import rawsearch
    tag, kw, rawkw = task
    a = S.solve(S.Problem(**kw), want_path=False)
    b = rawsearch.solve_raw(API=API, **rawkw)
    return {"tag": tag, "norm": a["opt"], "raw": b["opt"],
            "states": b["states"], "transitions": b["transitions"]}


def raw_crosscheck(res, tasks):
    """Harness self-check: on tiny instances the optimum of the normalised
    search (E3) must equal the optimum over the *raw* action alphabet explored
    directly on Machine.step (vf/rawsearch.py) -- the same transition function
    that accepts the library's streams, with restart-data coverage tracked."""
    for o in common.pmap_dynamic(_raw_task, tasks):
        res.add(states=o["states"], transitions=o["transitions"])
        res.count("raw_alphabet_crosschecks")
        if o["norm"] != o["raw"]:
            res.harness_error(f"normalised search {o['norm']} != raw-alphabet "
                              f"search {o['raw']} at {o['tag']}")


def clear_memo(fn):
    """Empty the memo table of a repo function decorated with cache_step (a
    dict in the wrapper's closure) or functools caches.  Best effort: if the
    implementation keeps no such table nothing happens."""
    n = 0
    if hasattr(fn, "cache_clear"):
        fn.cache_clear()
        n += 1
    for cell in (getattr(fn, "__closure__", None) or ()):
        try:
            v = cell.cell_contents
        except ValueError:
            continue
        if isinstance(v, dict):
            v.clear()
            n += 1
    return n


def clear_all_memos():
    n = 0
    ms = common.repo_mod("multistage")
    mx = common.repo_mod("mixed")
    for mod, names in ((ms, ("optimal_extra_steps", "optimal_steps_binomial",
                             "n_advance")),
                       (mx, ("optimal_steps_mixed", "mixed_step_memoization",
                             "mixed_steps_tabulation"))):
        for name in names:
            f = getattr(mod, name, None)
            if f is not None:
                n += clear_memo(f)
    # ... and whatever other tables the implementation keeps (a refactoring
    # may move them): functools caches, closure dicts of any module-level
    # function, module-level dicts that were empty at import
    n += common.reset_lib_memos()
    return n


def stream_cost_of_run(run):
    """(fwd_steps, counters, failure-or-None) of a driven configuration."""
    M = run.machine
    if M is None:
        return None, None, f"construction failed: {run.construct_exc}"
    bad = [f for f in run.all_failures()
           if set(f.props) & {"C01", "C02", "C17"}]
    if run.stream_exc or M.phase != D.DONE:
        return None, None, f"stream incomplete: {run.stream_exc}"
    cnt = (M.fwd_steps, M.rev_steps, M.disk_writes, M.disk_loads)
    return M.fwd_steps, cnt, (bad[0].code if bad else None)


def stream_cost(cfg):
    return stream_cost_of_run(D.drive(cfg, observers=False))


def stream_costs(cfgs):
    """Drive all configurations (grouped, both sibling orders); returns a flat
    list of (index, fwd, counters, err) with one or two entries per index."""
    outs = D.run_box(cfgs, stream_cost_of_run, observers=False, orders=2)
    flat = []
    for i, lst in enumerate(outs):
        seen = []
        for o in lst:
            if o not in seen:
                seen.append(o)
        for o in seen:
            flat.append((i,) + tuple(o))
    return [flat]


def scan_n_advance(NG, SG, NL, SL):
    """Planner-level *guide* (never a verdict on its own): evaluate the repo's
    step-size function n_advance, if it exists with the known signature, on
    every (n <= NG, s <= SG) and on the few-unit columns (n <= NL, s <= SL),
    both trajectories, and return the points where the returned first step is
    not an optimal one: i + T(i, s) + T(n - i, s - 1) != T(n, s).  Each
    anomaly is then confirmed (or dismissed) by driving a real schedule."""
    ms = common.repo_mod("multistage")
    f = getattr(ms, "n_advance", None)
    if f is None:
        return None, 0
    T = refs.binomial_total_steps
    bad = []
    n_eval = 0

    def probe(n, s, traj):
        try:
            i = f(n, s, trajectory=traj)
        except TypeError:
            return "signature"
        except Exception as e:  # noqa: BLE001
            return f"raises {type(e).__name__}"
        if not (isinstance(i, int) or hasattr(i, "__index__")):
            return "type"
        i = int(i)
        if not 1 <= i <= n - 1:
            return f"step {i}"
        if i + T(i, s) + T(n - i, max(s - 1, 0) if n - i > 1 else 0) \
                != T(n, s):
            return f"step {i} is not optimal"
        return None
    for traj in ("maximum", "revolve"):
        for n in range(2, NL + 1):
            smax = SG if n <= NG else SL
            for s in range(1, min(smax, n - 1) + 1):
                n_eval += 1
                r = probe(n, s, traj)
                if r == "signature":
                    return None, n_eval
                if r is not None:
                    bad.append((n, s, traj, r))
    return bad, n_eval


def scan_opt0_table(LG, MG):
    """Planner-level *guide* for Revolve: the repo's memory-only cost table
    get_opt_0_table(lmax, mmax, uf, ub) with unit costs, if it exists with the
    known signature and meaning (entry [m][l] = Griewank-Walther total of
    l + 1 steps with m units, which is first verified on the entries with
    l < 40), compared with the validated closed form for l <= LG, m <= MG.
    Returns the list of deviating (m, l) or None.  Never a verdict: a wrong
    entry only matters if a split decision reads it, which is decided by
    driving real Revolve schedules."""
    try:
        get_opt_0_table = common.repo_mod(
            "hrevolve_sequences.revolve").get_opt_0_table
        tab = get_opt_0_table(LG, MG, 1, 1)
        T = refs.binomial_total_steps
        val = lambda m, l: tab[m][l]      # noqa: E731
        for m in range(1, MG + 1):
            for l in range(0, 40):        # noqa: E741
                if val(m, l) != T(l + 1, m):
                    return None           # other meaning / other layout
        return [(m, l) for m in range(1, MG + 1) for l in range(40, LG + 1)
                if val(m, l) != T(l + 1, m)]
    except Exception:  # noqa: BLE001
        return None


GUIDE = {"quick": dict(NG=300, SG=300, NL=4000, SL=4),
         "thorough": dict(NG=900, SG=900, NL=20000, SL=5)}


# ===========================================================================
# C05
# ===========================================================================
C05_BOUNDS = {"quick": dict(S=10, T=100, T_ms=64, T_rev=24, R=4, all_splits=16),
              "thorough": dict(S=16, T=200, T_ms=128, T_rev=48, R=6,
                               all_splits=24)}


def check_c05(prop, tier):
    res = common.Result(prop, tier)
    B = common.bounds(C05_BOUNDS, tier)
    res.bounds = dict(B)
    # ---- tier A
    tasks = []
    for n in range(1, B["S"] + 1):
        for s in range(1, max(1, n - 1) + 1):
            tasks.append(((n, s), dict(N=n, b_ram=s, b_disk=0)))
    tabA = run_searches(res, tasks)
    nraw = 4 if tier == "quick" else 6
    raw_crosscheck(res, [(("bin", n, s), dict(N=n, b_ram=s, b_disk=0),
                          dict(N=n, b_ram=s, b_disk=0, costs=(1, 0, 0, 0)))
                         for n in range(1, nraw + 1)
                         for s in range(1, max(1, n - 1) + 1)])

    def optA(n, s):
        return tabA[(n, min(s, max(1, n - 1)))]["opt"]
    # ---- tier B validated on the overlap
    for (n, s), o in tabA.items():
        b1 = refs.binomial_total_steps(n, s)
        b2 = refs.binomial_total_steps_dp(n, s)
        if not (b1 == b2 == o["opt"]):
            res.harness_error(f"tier B disagrees with tier A at n={n} s={s}: "
                              f"closed form {b1}, recurrence {b2}, state graph "
                              f"{o['opt']}")
    for n in range(1, B["T"] + 1):
        for s in range(1, max(1, n - 1) + 1):
            if refs.binomial_total_steps(n, s) != \
                    refs.binomial_total_steps_dp(n, s):
                res.harness_error(f"closed form != recurrence at n={n} s={s}")

    def opt(n, s):
        s = min(s, max(1, n - 1))
        return optA(n, s) if n <= B["S"] else refs.binomial_total_steps(n, s)

    # ---- the published helper, fresh and warmed caches
    for order in ("fresh_descending", "warm_ascending"):
        ms = common.repo_mod("multistage")
        if order == "fresh_descending":
            res.counters["memo_tables_cleared"] = clear_all_memos()
            ns = range(B["T"], 0, -1)
        else:
            ns = range(1, B["T"] + 1)
        for n in ns:
            for s in range(1 if n > 1 else 0, n + 2):
                res.add(evaluations=1)
                try:
                    got = ms.optimal_steps_binomial(n, s)
                except Exception as e:  # noqa: BLE001
                    got = f"{type(e).__name__}: {e}"
                want = opt(n, max(s, 1)) if n > 1 else 1
                if got != want:
                    key = {"cls": "optimal_steps_binomial", "code": "value"}
                    rp = common.write_replay(prop, "helper", {
                        "property": prop, "kind": "c05_helper", "n": n, "s": s,
                        "order": order, "want": int(want), "got": repr(got)})
                    res.violation(key, f"optimal_steps_binomial({n}, {s}) = "
                                       f"{got} ({order}); optimum is {want}", rp)

    # ---- streams
    cfgs = []
    for n in range(1, B["T_ms"] + 1):
        # up to one value above the clamp; for small n up to n + 2, so that
        # splits whose RAM (or DISK) count alone exceeds n - 1 are included
        smax = n + 2 if n <= B["all_splits"] else max(1, n - 1) + 1
        for s in range(1, smax + 1):
            if n <= B["all_splits"]:
                splits = [(a, s - a) for a in range(0, s + 1)]
            else:
                splits = sorted({(s, 0), (0, s), (s // 2, s - s // 2),
                                 (1, s - 1), (s - 1, 1)} - {(-1, s + 1)})
                splits = [x for x in splits if x[0] >= 0 and x[1] >= 0]
            for ram, disk in splits:
                for traj in ("maximum", "revolve"):
                    cfgs.append(D.Config("Multistage", (ram, disk, traj), n))
    costs = D.COSTS_QUICK if tier == "quick" else D.COSTS_ALL
    for n in range(1, B["T_rev"] + 1):
        for ram in range(1, min(B["R"], max(1, n - 1) + 1) + 1):
            for cv in costs:
                cfgs.append(D.Config("Revolve", (ram,) + tuple(cv), n))

    parts = stream_costs(cfgs)
    nontriv = 0
    for part in parts:
        for i, fwd, cnt, err in part:
            cfg = cfgs[i]
            res.add(evaluations=1)
            n = cfg.N
            s = (cfg.params[0] + cfg.params[1]) if cfg.cls == "Multistage" \
                else cfg.params[0]
            want = opt(n, s)
            if fwd is not None:
                res.add(traces_validated_against_impl=1, transitions=cnt[0])
            if want > n + (n - 1) and min(s, n - 1) >= 2:
                nontriv += 1
            if fwd is None or fwd != want:
                code = "steps_exceed_optimum" if (fwd or 0) > want else \
                    ("steps_below_optimum" if fwd is not None else "no_stream")
                key = {"cls": cfg.cls, "code": code}
                rp = common.write_replay(prop, f"{cfg.cls}_{code}", {
                    "property": prop, "kind": "c05_stream",
                    "config": cfg.as_json(), "want": int(want),
                    "got": fwd, "err": err})
                res.violation(key, f"{cfg!r}: {fwd} forward steps, optimum is "
                                   f"{want} ({err})", rp)
                if fwd is not None and fwd < want and err is None:
                    res.harness_error(f"{cfg!r}: executable stream below the "
                                      f"state-graph optimum ({fwd} < {want})")
    # ---- guided deep confirmations (large n): the step-size function is
    #      scanned far beyond the stream box; every anomaly is confirmed by
    #      driving the corresponding Multistage schedule before it counts
    G = GUIDE[tier]
    bad, n_eval = scan_n_advance(**G)
    res.bounds["planner_scan"] = dict(G)
    res.counters["planner_scan_points"] = n_eval
    if bad is None:
        res.counters["planner_scan"] = "skipped (no n_advance with the known signature)"
    else:
        res.counters["planner_scan_anomalies"] = len(bad)
        for n, s, traj, why in sorted(bad)[:6]:
            cfg = D.Config("Multistage", (0, s, traj), n)
            fwd, cnt, err = stream_cost(cfg)
            want = refs.binomial_total_steps(n, s)
            res.add(evaluations=1, traces_validated_against_impl=1)
            if fwd is None or fwd != want:
                rp = common.write_replay(prop, "Multistage_deep", {
                    "property": prop, "kind": "c05_stream",
                    "config": cfg.as_json(), "want": int(want), "got": fwd,
                    "err": err})
                res.violation({"cls": "Multistage",
                               "code": "steps_exceed_optimum"},
                              f"{cfg!r}: {fwd} forward steps, optimum is "
                              f"{want} (found via the step-size scan: "
                              f"n_advance({n}, {s}, {traj!r}) {why})", rp)
    # ---- the same for Revolve: deviating entries of its cost table point
    #      at the (n, m) whose split decisions read them: n from l + 2 up to
    #      2.5 l (a uniform error of a whole range of entries only tips a
    #      decision near the end of the range)
    LG, MG = (700, 5) if tier == "quick" else (1500, 8)
    dev = scan_opt0_table(LG, MG)
    if dev is None:
        res.counters["revolve_table_scan"] = "skipped (no get_opt_0_table " \
            "with the known signature and meaning)"
    else:
        res.counters["revolve_table_scan_entries"] = LG * MG
        res.counters["revolve_table_scan_deviations"] = len(dev)
        first = {}
        for m, l in dev:                  # noqa: E741
            first.setdefault(m, l)
        cand = []
        for m, l in sorted(first.items(), key=lambda x: x[1])[:2]:  # noqa: E741
            cand += [D.Config("Revolve", (m, 1, 1, 2, 2), n)
                     for n in range(l + 2, min(int(2.5 * l) + 20, 1200))]

        def rev_worker(idxs):
            return [(i,) + stream_cost(cand[i])[:3:2] for i in idxs]
        hit = None
        for part in common.pmap(rev_worker, len(cand)):
            for i, fwd, err in part:
                res.add(evaluations=1, traces_validated_against_impl=1)
                want = refs.binomial_total_steps(cand[i].N, cand[i].params[0])
                if (fwd is None or fwd != want) and \
                        (hit is None or cand[i].N < hit[0].N):
                    hit = (cand[i], fwd, want, err)
        if hit is not None:
            cfg, fwd, want, err = hit
            rp = common.write_replay(prop, "Revolve_deep", {
                "property": prop, "kind": "c05_stream",
                "config": cfg.as_json(), "want": int(want), "got": fwd,
                "err": err})
            res.violation({"cls": "Revolve", "code": "steps_exceed_optimum"},
                          f"{cfg!r}: {fwd} forward steps, optimum is {want} "
                          "(found via the scan of the memory-only cost table: "
                          f"{len(dev)} deviating entries, the first at "
                          f"(m, l) = {dev[0]})", rp)
    res.cov["distinct_nontrivial"] = nontriv
    res.cov["rule"] = ("tier A: every (n,s) with n<=S solved on the full state "
                       "graph of M; library streams/helper for every (n,s) up "
                       "to T compared with tier A (n<=S) or the validated "
                       "closed form; non-trivial = s>=2 units and recomputation "
                       "required")
    k = common.seed() % len(tasks)
    res.sample({"search": {"n": tasks[k][0][0], "s": tasks[k][0][1],
                           "opt": int(tabA[tasks[k][0]]["opt"]),
                           "states": tabA[tasks[k][0]]["states"],
                           "witness_head": tabA[tasks[k][0]]["w_head"]}})
    c = cfgs[(common.seed() * 13 + 5) % len(cfgs)]
    res.sample({"stream": c.as_json(), "fwd_steps": stream_cost(c)[0],
                "optimum": int(opt(c.N, sum(c.params[:2])
                                   if c.cls == "Multistage" else c.params[0]))})
    res.assumptions = [
        "executable schedule = path of M (DESIGN 3.1/3.3); restart-data "
        "coverage is relaxed in the search (cannot raise the optimum)",
        f"exhaustive state graph for n <= {B['S']}; above, the closed form "
        "validated on that range"]
    return common.finish(res)


# ===========================================================================
# C06
# ===========================================================================
C06_BOUNDS = {"quick": dict(S=8, T=128, NG=720, SG=30),
              "thorough": dict(S=12, T=256, NG=1500, SG=40)}


def check_c06(prop, tier):
    res = common.Result(prop, tier)
    B = common.bounds(C06_BOUNDS, tier)
    res.bounds = dict(B)
    tasks = []
    for n in range(1, B["S"] + 1):
        for s in range(1, max(1, n - 1) + 1):
            tasks.append(((n, s), dict(N=n, b_ram=s, b_disk=0, mixed=True)))
    # a few instances with the units on DISK: same graph up to labels
    for n in range(2, min(B["S"], 6) + 1):
        tasks.append(((n, 2, "DISK"), dict(N=n, b_ram=0, b_disk=2, mixed=True)))
    tabA = run_searches(res, tasks)
    nraw = 4 if tier == "quick" else 6
    raw_crosscheck(res, [(("mixed", n, s),
                          dict(N=n, b_ram=s, b_disk=0, mixed=True),
                          dict(N=n, b_ram=s, b_disk=0, costs=(1, 0, 0, 0),
                               mixed=True))
                         for n in range(1, nraw + 1)
                         for s in range(1, max(1, n - 1) + 1)])
    for tag, o in tabA.items():
        n, s = tag[0], tag[1]
        if refs.mixed_total_steps(n, s) != o["opt"]:
            res.harness_error(f"mixed recurrence {refs.mixed_total_steps(n, s)}"
                              f" != state graph {o['opt']} at n={n} s={s}")

    def opt(n, s):
        s = min(s, max(1, n - 1))
        return tabA[(n, s)]["opt"] if n <= B["S"] else \
            refs.mixed_total_steps(n, s)

    mx = common.repo_mod("mixed")
    res.counters["memo_tables_cleared"] = clear_all_memos()
    for n in list(range(B["T"], 0, -1)) + list(range(1, B["T"] + 1)):
        for s in range(1 if n > 1 else 0, n + 2):
            res.add(evaluations=1)
            try:
                got = mx.optimal_steps_mixed(n, s)
            except Exception as e:  # noqa: BLE001
                got = f"{type(e).__name__}: {e}"
            want = opt(n, max(s, 1)) if n > 1 else 1
            if got != want:
                rp = common.write_replay(prop, "helper", {
                    "property": prop, "kind": "c06_helper", "n": n, "s": s,
                    "want": int(want), "got": repr(got)})
                res.violation({"cls": "optimal_steps_mixed", "code": "value"},
                              f"optimal_steps_mixed({n}, {s}) = {got}; optimum "
                              f"is {want}", rp)

    cfgs = []
    for n in range(1, B["T"] + 1):
        for s in range(1 if n > 1 else 0, n + 2):
            for st in ("RAM", "DISK"):
                cfgs.append(D.Config("Mixed", (s, st), n))
    # magnitude layer: step and unit counts beyond 256 (store-nearly-all)
    for n in (257, 258) if tier == "quick" else (257, 258, 300, 600):
        for s in (n - 1, n - 2, n - 5, n + 3):
            for st in ("RAM", "DISK"):
                cfgs.append(D.Config("Mixed", (s, st), n))

    parts = stream_costs(cfgs)
    got = {}
    nontriv = 0
    for part in parts:
        for i, fwd, cnt, err in part:
            cfg = cfgs[i]
            res.add(evaluations=1)
            got[cfg.key()] = fwd
            n, s = cfg.N, cfg.params[0]
            want = opt(n, max(s, 1)) if n > 1 else 1
            if fwd is not None:
                res.add(traces_validated_against_impl=1, transitions=cnt[0])
            if n > s + 1 and s >= 2:
                nontriv += 1
            if fwd is None or fwd != want:
                code = "steps_exceed_optimum" if (fwd or 0) > want else \
                    ("steps_below_optimum" if fwd is not None else "no_stream")
                rp = common.write_replay(prop, f"Mixed_{code}", {
                    "property": prop, "kind": "c06_stream",
                    "config": cfg.as_json(), "want": int(want), "got": fwd,
                    "err": err})
                res.violation({"cls": "Mixed", "code": code},
                              f"{cfg!r}: {fwd} forward steps, optimum is "
                              f"{want} ({err})", rp)
                if fwd is not None and fwd < want and err is None:
                    res.harness_error(f"{cfg!r}: executable stream below the "
                                      f"state-graph optimum ({fwd} < {want})")
    for cfg in cfgs:
        if cfg.params[1] == "RAM":
            other = D.Config("Mixed", (cfg.params[0], "DISK"), cfg.N)
            if got[cfg.key()] != got[other.key()]:
                rp = common.write_replay(prop, "Mixed_storage_dependent", {
                    "property": prop, "kind": "c06_stream",
                    "config": cfg.as_json(), "want": got[other.key()],
                    "got": got[cfg.key()], "err": "RAM vs DISK"})
                res.violation({"cls": "Mixed", "code": "storage_dependent"},
                              f"{cfg!r}: {got[cfg.key()]} steps on RAM, "
                              f"{got[other.key()]} on DISK", rp)
    # ---- guided deep confirmations: the planner's cost for large n and
    #      moderately many units against the validated recurrence; anomalies
    #      count only after the real Mixed stream was driven
    NG, SG = B.get("NG", 320), B.get("SG", 32)
    res.bounds["planner_scan"] = {"NG": NG, "SG": SG}
    fplan = getattr(mx, "mixed_step_memoization", None)
    anomalies = []
    if fplan is not None:
        for n in range(2, NG + 1):
            for s in range(1, min(SG, n - 1) + 1):
                res.add(evaluations=1)
                try:
                    c = int(fplan(n, s)[2])
                except Exception:  # noqa: BLE001
                    continue
                if c != refs.mixed_total_steps(n, s):
                    anomalies.append((n, s, c))
        res.counters["planner_scan_anomalies"] = len(anomalies)
        for n, s, c in sorted(anomalies)[:4]:
            for st in ("RAM", "DISK"):
                cfg = D.Config("Mixed", (s, st), n)
                fwd, cnt, err = stream_cost(cfg)
                want = refs.mixed_total_steps(n, s)
                res.add(evaluations=1, traces_validated_against_impl=1)
                if fwd is None or fwd != want:
                    rp = common.write_replay(prop, "Mixed_deep", {
                        "property": prop, "kind": "c06_stream",
                        "config": cfg.as_json(), "want": int(want),
                        "got": fwd, "err": err})
                    res.violation({"cls": "Mixed",
                                   "code": "steps_exceed_optimum"},
                                  f"{cfg!r}: {fwd} forward steps, optimum is "
                                  f"{want} (found via the planner scan)", rp)
    res.cov["distinct_nontrivial"] = nontriv
    res.cov["rule"] = ("tier A: full state graph of M (mixed variant: a unit "
                       "holds restart data or one step's dependencies) for "
                       "every (n,s), n<=S; Mixed streams (both storages) and "
                       "optimal_steps_mixed for every (n,s) up to T; "
                       "non-trivial = n > s+1 and s >= 2")
    k = common.seed() % len(tasks)
    res.sample({"search": {"tag": list(map(str, tasks[k][0])),
                           "opt": int(tabA[tasks[k][0]]["opt"]),
                           "states": tabA[tasks[k][0]]["states"],
                           "witness_head": tabA[tasks[k][0]]["w_head"]}})
    res.assumptions = [
        "executable schedule = path of M, mixed variant (DESIGN 3.3)",
        f"exhaustive state graph for n <= {B['S']}; above, the recurrence "
        "validated on that range"]
    return common.finish(res)


# ===========================================================================
# C07
# ===========================================================================
C07_BOUNDS = {"quick": dict(S=7, T=20, RAM=3, DISK=3),
              "thorough": dict(S=11, T=40, RAM=3, DISK=3)}


def check_c07(prop, tier):
    res = common.Result(prop, tier)
    B = common.bounds(C07_BOUNDS, tier)
    res.bounds = dict(B)
    costs = D.COSTS_QUICK if tier == "quick" else D.COSTS_ALL
    res.bounds["cost_vectors"] = [list(c) for c in costs]
    # ---- tier A
    tasks = []
    for n in range(1, B["S"] + 1):
        for ram in range(1, B["RAM"] + 1):
            for cv in costs:
                for disk in range(0, B["DISK"] + 1):
                    tasks.append((("H", n, ram, disk, cv),
                                  dict(N=n, b_ram=ram, b_disk=disk, costs=cv)))
                tasks.append((("D", n, ram, cv),
                              dict(N=n, b_ram=ram, b_disk=n, costs=cv,
                                   read_once=True)))
    # largest first: better load balance
    tasks.sort(key=lambda t: -t[1]["N"])
    tabA = run_searches(res, tasks)
    nraw = 3 if tier == "quick" else 4
    rawcosts = [costs[0], costs[3], costs[-1]] if tier == "quick" else \
        [costs[0], costs[2], costs[3], costs[7], costs[10], costs[-2]]
    rt = []
    for n in range(2, nraw + 1):
        for ram in (1, 2):
            for cv in rawcosts:
                for disk in (0, 1, 2):
                    rt.append((("H", n, ram, disk, cv),
                               dict(N=n, b_ram=ram, b_disk=disk, costs=cv),
                               dict(N=n, b_ram=ram, b_disk=disk, costs=cv)))
                rt.append((("D", n, ram, cv),
                           dict(N=n, b_ram=ram, b_disk=n, costs=cv,
                                read_once=True),
                           dict(N=n, b_ram=ram, b_disk=n, costs=cv,
                                read_once=True)))
    rt.sort(key=lambda t: -t[1]["N"])
    raw_crosscheck(res, rt)

    # ---- tier B validated on the overlap
    refcache = {}

    def ref(ram, disk, cv):
        k = (ram, disk, cv)
        if k not in refcache:
            refcache[k] = refs.RevolveRefs(B["T"], ram, disk, cv)
        return refcache[k]
    for tag, o in tabA.items():
        if tag[0] == "H":
            _, n, ram, disk, cv = tag
            b = ref(ram, disk, cv).hrevolve(n)
            if disk == 0 and ref(ram, 0, cv).revolve(n) != o["opt"]:
                res.harness_error(f"memory-only recurrence != state graph at "
                                  f"{tag}")
        else:
            _, n, ram, cv = tag
            b = ref(ram, 0, cv).disk_revolve(n)
        if b != o["opt"]:
            res.harness_error(f"tier B {b} != tier A {o['opt']} at {tag}")

    def optimum(kind, n, ram, disk, cv):
        if n <= B["S"]:
            return tabA[("H", n, ram, disk, cv)]["opt"] if kind == "H" else \
                tabA[("D", n, ram, cv)]["opt"]
        r = ref(ram, disk if kind == "H" else 0, cv)
        return r.hrevolve(n) if kind == "H" else r.disk_revolve(n)

    # ---- library streams
    cfgs = []
    for n in range(1, B["T"] + 1):
        for ram in range(1, B["RAM"] + 1):
            for cv in costs:
                for disk in range(0, B["DISK"] + 1):
                    cfgs.append(D.Config("HRevolve", (ram, disk) + cv, n))
                for c in ("Revolve", "DiskRevolve", "PeriodicDiskRevolve"):
                    cfgs.append(D.Config(c, (ram,) + cv, n))
    # the same cost values in other numeric types (exact rationals,
    # numpy.float64 scalars, 0-d numpy arrays -- mutable, so an in-place
    # update of a cost inside the planner shows): same optimum
    tcv = [costs[0], costs[3], costs[5]]
    res.bounds["typed_cost_vectors"] = [list(c) for c in tcv]
    for n in range(1, min(B["T"], 14) + 1):
        for ram in range(1, B["RAM"] + 1):
            for cv in tcv:
                for fl in ("cF", "cN", "cA"):
                    for disk in range(0, min(B["DISK"], 2) + 1):
                        cfgs.append(D.Config("HRevolve", (ram, disk) + cv, n,
                                             1, fl))
                    for c in ("Revolve", "DiskRevolve"):
                        cfgs.append(D.Config(c, (ram,) + cv, n, 1, fl))

    parts = stream_costs(cfgs)
    cost = {}
    counters = {}
    for part in parts:
        for i, fwd, cnt, err in part:
            cfg = cfgs[i]
            res.add(evaluations=1)
            cv = D.costs_of(cfg)
            if cnt is None:
                cost[cfg.key()] = None
                rp = common.write_replay(prop, f"{cfg.cls}_no_stream", {
                    "property": prop, "kind": "c07_stream",
                    "config": cfg.as_json(), "err": err})
                res.violation({"cls": cfg.cls, "code": "no_stream"},
                              f"{cfg!r}: {err}", rp)
                continue
            res.add(traces_validated_against_impl=1, transitions=cnt[0])
            uf, ub, wd, rd = (F(x) for x in cv)
            c_now = (uf * cnt[0] + ub * cnt[1] + wd * cnt[2] + rd * cnt[3])
            if cfg.key() in cost and cost[cfg.key()] is not None \
                    and c_now <= cost[cfg.key()]:
                continue      # keep the worse of the two sibling orders
            cost[cfg.key()] = c_now
            counters[cfg.key()] = cnt
    nontriv = set()
    for cfg in cfgs:
        c = cost[cfg.key()]
        if c is None:
            continue
        n = cfg.N
        cv = D.costs_of(cfg)
        cnt = counters[cfg.key()]
        if cfg.cls == "HRevolve":
            ram, disk = cfg.params[:2]
            want = optimum("H", n, ram, disk, cv)
            label = "hierarchical optimum"
        elif cfg.cls == "DiskRevolve":
            ram = cfg.params[0]
            want = optimum("D", n, ram, 0, cv)
            label = "read-once-disk optimum"
        elif cfg.cls == "Revolve":
            ram = cfg.params[0]
            want = optimum("H", n, ram, 0, cv)
            label = "memory-only optimum"
        else:
            want = None
        if cnt[2] > 0:
            res.count("instances_with_disk_write")
            nontriv.add(cfg.key())
        if cv[0] != cv[1]:
            res.count("instances_uf_ne_ub")
        if cv[2] != cv[3]:
            res.count("instances_wd_ne_rd")
        if cnt[3] > cnt[2]:
            res.count("instances_with_disk_checkpoint_loaded_twice")
        if want is not None and c != want:
            code = "cost_exceeds_optimum" if c > want else "cost_below_optimum"
            rp = common.write_replay(prop, f"{cfg.cls}_{code}", {
                "property": prop, "kind": "c07_stream",
                "config": cfg.as_json(), "want": str(want), "got": str(c),
                "counters": list(cnt)})
            res.violation({"cls": cfg.cls, "code": code},
                          f"{cfg!r}: cost {c} (fwd,rev,dw,dr={cnt}), {label} "
                          f"is {want}", rp)
            if c < want:
                res.harness_error(f"{cfg!r}: stream cost {c} below optimum "
                                  f"{want}")
    # ---- inequalities
    for n in range(1, B["T"] + 1):
        for ram in range(1, B["RAM"] + 1):
            for cv in costs:
                hs = [cost[D.Config("HRevolve", (ram, d) + cv, n).key()]
                      for d in range(0, B["DISK"] + 1)]
                rv = cost[D.Config("Revolve", (ram,) + cv, n).key()]
                dr = cost[D.Config("DiskRevolve", (ram,) + cv, n).key()]
                pr = cost[D.Config("PeriodicDiskRevolve", (ram,) + cv, n).key()]
                if None in hs or None in (rv, dr, pr):
                    continue
                res.add(evaluations=1)
                bad = None
                for d in range(1, len(hs)):
                    if hs[d] > hs[d - 1]:
                        bad = ("hrevolve_not_monotone",
                               f"cost(HRevolve, {d} disk units)={hs[d]} > "
                               f"cost({d - 1} units)={hs[d - 1]}")
                if dr > rv:
                    bad = ("diskrevolve_worse_than_revolve",
                           f"cost(DiskRevolve)={dr} > cost(Revolve)={rv}")
                if pr < dr:
                    bad = ("periodic_better_than_diskrevolve",
                           f"cost(PeriodicDiskRevolve)={pr} < "
                           f"cost(DiskRevolve)={dr}")
                if bad:
                    rp = common.write_replay(prop, bad[0], {
                        "property": prop, "kind": "c07_ineq", "n": n,
                        "ram": ram, "costs": list(cv), "what": bad[1]})
                    res.violation({"cls": "family", "code": bad[0]},
                                  f"n={n} ram={ram} costs={cv}: {bad[1]}", rp)
    res.cov["distinct_nontrivial"] = len(nontriv)
    res.cov["rule"] = ("tier A: full state graph of M with RAM+DISK stores and "
                       "the cost vector for every (n<=S, ram<=3, disk<=3, "
                       "cost vector); streams up to T against tier A / the "
                       "validated recurrences; non-trivial = instances whose "
                       "stream writes to DISK")
    for c in ("instances_with_disk_write", "instances_uf_ne_ub",
              "instances_wd_ne_rd",
              "instances_with_disk_checkpoint_loaded_twice"):
        if res.counters.get(c, 0) == 0:
            res.harness_error(f"vacuous: counter {c} is zero")
    k = common.seed() % len(tasks)
    o = tabA[tasks[k][0]]
    res.sample({"search": str(tasks[k][0]), "opt": str(o["opt"]),
                "states": o["states"], "witness_head": o["w_head"]})
    res.assumptions = [
        "cost model of the statement: uf per forward step, ub per reversed "
        "step, wd per checkpoint written to DISK, rd per load from DISK",
        "Disk-Revolve reference class: unbounded DISK, a DISK load consumes "
        "the checkpoint",
        f"exhaustive state graph for n <= {B['S']}, ram <= 3, disk <= 3; "
        "above, recurrences validated on that range"]
    return common.finish(res)


def check(prop, tier):
    return {"C05": check_c05, "C06": check_c06, "C07": check_c07}[prop](prop,
                                                                        tier)


def replay(prop, payload):
    k = payload["kind"]
    if k in ("c05_stream", "c06_stream"):
        cfg = D.Config.from_json(payload["config"])
        fwd, cnt, err = stream_cost(cfg)
        print(cfg, "forward steps", fwd, "expected", payload["want"], err)
        if fwd != payload["want"]:
            print(f"VIOLATION property={prop} replay=(replayed)")
            return 1
        return 0
    if k in ("c05_helper", "c06_helper"):
        if k == "c05_helper":
            got = common.repo_mod("multistage").optimal_steps_binomial(
                payload["n"], payload["s"])
        else:
            got = common.repo_mod("mixed").optimal_steps_mixed(
                payload["n"], payload["s"])
        print(got, "expected", payload["want"])
        if got != payload["want"]:
            print(f"VIOLATION property={prop} replay=(replayed)")
            return 1
        return 0
    if k == "c07_stream":
        cfg = D.Config.from_json(payload["config"])
        fwd, cnt, err = stream_cost(cfg)
        cv = [F(x) for x in D.costs_of(cfg)]
        c = None if cnt is None else sum(a * b for a, b in zip(cv, cnt))
        print(cfg, "cost", c, "expected", payload.get("want"), err)
        if str(c) != payload.get("want"):
            print(f"VIOLATION property={prop} replay=(replayed)")
            return 1
        return 0
    if k == "c07_ineq":
        print(payload["what"])
        print("re-run ./check C07 to re-evaluate the inequality")
        return 0
    return 2
