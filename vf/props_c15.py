"""C15 -- a schedule's stream depends only on its own parameters.

(e) aborted / preempted predecessors, see vf/faults.py.

(a) sequential histories: every history of length 1 over the full alphabet x
    3 modes, and of length 2 over the sub-alphabet x 3 modes, followed by each
    observed configuration;
(b) interleavings: all ordered pairs of the sub-alphabet (incl. twice the same
    configuration), every schedule with at most P preemptions, construction
    being a schedulable event;
(c) observers: every placement of one observer call (9 kinds) and of one or two
    observer bundles between the actions of each configuration.
Oracle: equality with the stream obtained in a fresh interpreter.
"""
import itertools

from . import common
from . import driver as D
from . import interleave as I
from .props_opt import clear_all_memos

BOUNDS = {"quick": dict(preemptions=2, pairs_sub=12, len2_sub=8),
          "thorough": dict(preemptions=3, pairs_sub=12, len2_sub=12)}
MODES = ("construct", "middle", "end")


def partial_run(cfg, length, mode):
    """History element: build cfg and iterate it according to mode."""
    t = I.Thread(cfg, {"construct": 0, "middle": length // 2,
                       "end": length}[mode])
    t.step()
    while t.enabled():
        t.step()
    return t


def observed(cfg, length, base, hist_desc):
    t = I.Thread(cfg, length)
    t.step()
    while t.enabled():
        t.step()
    if t.stream != base["stream"] or t.error != base["error"]:
        k = next((i for i, (x, y) in enumerate(zip(t.stream, base["stream"]))
                  if x != y), min(len(t.stream), len(base["stream"])))
        return (f"after history {hist_desc}: action {k} is "
                f"{t.stream[k:k + 1]} (error {t.error}), fresh interpreter "
                f"gives {base['stream'][k:k + 1]}")
    return None


def seq_once(hist, y):
    """Run one sequential history [(index, mode), ...] then observe config y,
    in this interpreter; returns the mismatch message or None."""
    full, _ = I.alphabet()
    base = I.baselines([full[y]])[0]
    # lengths of history members come from their own baselines
    hb = I.baselines([full[x] for x, _m in hist]) if hist else []
    clear_all_memos()

    def req(b):
        # a baseline that ends in an exception: that exception was raised by
        # the request for one more action
        return len(b["stream"]) + (1 if b["error"] else 0)
    for (x, mode), b in zip(hist, hb):
        partial_run(full[x], req(b), mode)
    return observed(full[y], req(base), base,
                    [f"{full[x]!r}:{m}" for x, m in hist])


def fresh_seq_many(cases, extra_env=None):
    """cases: list of (hist, y).  Each is executed in its own fresh
    interpreter (16 at a time); returns the list of messages (None = the
    observed stream equals its baseline)."""
    import json
    import os
    import subprocess
    import sys
    code = ("import sys, json; sys.path.insert(0, %r); "
            "from vf import props_c15 as P; "
            "c = json.loads(sys.argv[1]); "
            "print('SEQ ' + json.dumps(P.seq_once([tuple(h) for h in c[0]], "
            "c[1])))" % common.VERIF_DIR)
    env = dict(os.environ, PYTHONHASHSEED="0", VERIF_REPO=common.REPO)
    env.update(extra_env or {})
    out = []
    for i in range(0, len(cases), 16):
        procs = [subprocess.Popen([sys.executable, "-c", code,
                                   json.dumps([list(map(list, h)), y])],
                                  stdout=subprocess.PIPE,
                                  stderr=subprocess.PIPE, env=env, text=True)
                 for h, y in cases[i:i + 16]]
        for p in procs:
            so, se = p.communicate(timeout=600)
            line = [x for x in so.splitlines() if x.startswith("SEQ ")]
            out.append(json.loads(line[-1][4:]) if line
                       else f"HARNESS: {se[-300:]}")
    return out


def confirm_sequential(hist, y, nfull):
    """A mismatch seen inside a long-lived worker may be caused by what the
    worker ran earlier (a cache the harness does not know about).  Find a
    history that reproduces it in a fresh interpreter: the stated one, else
    the stated one preceded by one more alphabet member."""
    hist = [tuple(h) for h in hist]
    m = fresh_seq_many([(hist, y)])[0]
    if m is not None:
        return hist, m
    cases = [([(x, "end")] + hist, y) for x in range(nfull)]
    for (h, _y), m in zip(cases, fresh_seq_many(cases)):
        if m is not None:
            return h, m
    return None, None


FAMILY = {"Multistage": "binomial", "TwoLevel": "binomial",
          "Mixed": "mixed", "Revolve": "revolve", "HRevolve": "revolve",
          "DiskRevolve": "revolve", "PeriodicDiskRevolve": "revolve"}


def family(cfg):
    """Algorithm family of a configuration: members of one family run the
    same planner code on overlapping sub-problems (TwoLevel blocks are
    Multistage problems; the four Revolve classes share the sequence
    generators and their tables)."""
    return FAMILY.get(cfg.cls, "basic:" + cfg.cls)


def memo_keys(cfg, length):
    """Keys of the library's memo tables touched by one configuration run in
    isolation (vacuity measure for the interleavings)."""
    clear_all_memos()
    partial_run(cfg, length, "end")
    keys = set()
    ms = common.repo_mod("multistage")
    mx = common.repo_mod("mixed")
    for mod, names in ((ms, ("optimal_extra_steps",)),
                       (mx, ("optimal_steps_mixed", "mixed_step_memoization"))):
        for name in names:
            f = getattr(mod, name, None)
            for cell in (getattr(f, "__closure__", None) or ()):
                try:
                    v = cell.cell_contents
                except ValueError:
                    continue
                if isinstance(v, dict):
                    keys |= {(name, k) for k in v}
    return keys


def check(prop, tier):
    res = common.Result(prop, tier)
    B = common.bounds(BOUNDS, tier)
    res.bounds = dict(B)
    full, sub = I.alphabet()
    base = I.baselines(full)
    lens = [len(b["stream"]) for b in base]
    res.bounds["alphabet"] = len(full)
    res.bounds["sub_alphabet"] = len(sub)
    for c, b in zip(full, base):
        if b["error"]:
            res.harness_error(f"baseline of {c!r} raised {b['error']}")
    # determinism of the baseline itself: two separate interpreters
    again = I.baselines(full[:6])
    if again != base[:6]:
        res.harness_error("two fresh interpreters disagree on a baseline")

    # ------------------------------------------------------------ (a)
    tasks = []
    for h in itertools.product(range(len(full)), MODES):
        tasks.append((h,))
    n2 = B["len2_sub"]
    for h1 in itertools.product(range(n2), MODES):
        for h2 in itertools.product(range(n2), MODES):
            tasks.append((h1, h2))

    def worker_a(idxs):
        bad = []
        n = 0
        for ti in idxs:
            hist = tasks[ti]
            obs_set = range(len(full)) if len(hist) == 1 else range(len(sub))
            for y in obs_set:
                clear_all_memos()
                for (x, mode) in hist:
                    partial_run(full[x], lens[x], mode)
                desc = [f"{full[x]!r}:{mode}" for x, mode in hist]
                m = observed(full[y], lens[y], base[y], desc)
                n += 1
                if m:
                    bad.append(([[x, mode] for x, mode in hist], y, m))
        return n, bad
    nseq = 0
    for n, bad in common.pmap(worker_a, len(tasks)):
        nseq += n
        for hist, y, msg in bad:
            if any(v["key"].get("code") == "history_dependent"
                   for v in res.violations) and len(res.violations) > 3:
                res.violation({"code": "history_dependent",
                               "cls": full[y].cls}, f"{full[y]!r}: {msg}",
                              res.violations[0]["replay"])
                continue
            h2, m2 = confirm_sequential(hist, y, len(full))
            rp = common.write_replay(prop, "sequential", {
                "property": prop, "kind": "c15_seq",
                "history": [list(h) for h in (h2 or hist)], "observed": y,
                "reproduced_in_fresh_interpreter": h2 is not None})
            res.violation({"code": "history_dependent", "cls": full[y].cls},
                          f"{full[y]!r}: " + (m2 if h2 is not None else
                          msg + " [seen after a longer history of the "
                          "exploring process; not reproduced by a history of "
                          "length <= 3 in a fresh interpreter]"), rp)
    res.add(evaluations=nseq, states=nseq,
            transitions=nseq, traces_validated_against_impl=nseq)
    res.counters["sequential_histories"] = nseq

    # ------------------------------------------------------------ (b)
    P = B["preemptions"]
    ns = B["pairs_sub"]
    pairs = [(i, j) for i in range(ns) for j in range(ns)]

    def worker_b(pair):
        i, j = pair
        cf = [full[i], full[j]]
        ln = [lens[i], lens[j]]
        nexec = 0
        nev = 0
        bad = None
        for s in I.schedules([ln[0] + 1, ln[1] + 1], P):
            r = I.run_schedule(cf, ln, s)
            nexec += 1
            nev += len(s)
            for t, y in ((0, i), (1, j)):
                if r[t][0] != base[y]["stream"] or r[t][1] != base[y]["error"]:
                    if bad is None:
                        bad = (list(s), t)
            if bad is not None:
                break
        return (i, j, nexec, nev, bad)
    order = sorted(pairs, key=lambda p: -(lens[p[0]] * lens[p[1]]))
    nexec_tot = 0
    for i, j, nexec, nev, bad in common.pmap_dynamic(worker_b, order):
        nexec_tot += nexec
        res.add(evaluations=nexec, states=nexec, transitions=nev,
                traces_validated_against_impl=2 * nexec)
        if bad:
            sched, t = bad
            cf = [full[i], full[j]]
            ln = [lens[i], lens[j]]
            # must fail identically in a fresh interpreter, twice
            y = (i, j)[t]
            r1 = I.fresh_run(cf, ln, [sched])
            r2 = I.fresh_run(cf, ln, [sched])
            same = (r1 == r2) and (list(r1[t][0]) != base[y]["stream"]
                                   or r1[t][1] != base[y]["error"])
            rp = common.write_replay(prop, "interleaving", {
                "property": prop, "kind": "c15_interleave",
                "cfgs": [c.as_json() for c in cf], "lengths": ln,
                "schedule": sched, "thread": t,
                "reproduced_in_fresh_interpreter": same})
            res.violation({"code": "interleaving_dependent",
                           "cls": full[y].cls},
                          f"threads {cf[0]!r} | {cf[1]!r}: under schedule "
                          f"{sched} thread {t} does not emit its baseline "
                          f"stream (reproduced in a fresh interpreter: {same})",
                          rp)
    # ------------------------------------------------------------ (b3)
    # three threads (thorough only): all ordered triples over five members of
    # the sub-alphabet, preemption bound 2
    if tier != "quick":
        tri = [0, 2, 3, 4, 8]
        triples = [(i, j, k) for i in tri for j in tri for k in tri]

        def worker_t(tr):
            cf = [full[x] for x in tr]
            ln = [lens[x] for x in tr]
            nexec = 0
            nev = 0
            bad = None
            for sch in I.schedules([l + 1 for l in ln], 2):
                r = I.run_schedule(cf, ln, sch)
                nexec += 1
                nev += len(sch)
                for t, y in enumerate(tr):
                    if r[t][0] != base[y]["stream"] or \
                            r[t][1] != base[y]["error"]:
                        bad = bad or (list(sch), t)
                if bad:
                    break
            return (tr, nexec, nev, bad)
        ntri = 0
        for tr, nexec, nev, bad in common.pmap_dynamic(worker_t, triples):
            ntri += nexec
            res.add(evaluations=nexec, states=nexec, transitions=nev,
                    traces_validated_against_impl=3 * nexec)
            if bad:
                sched, t = bad
                cf = [full[x] for x in tr]
                rp = common.write_replay(prop, "interleaving3", {
                    "property": prop, "kind": "c15_interleave",
                    "cfgs": [c.as_json() for c in cf],
                    "lengths": [lens[x] for x in tr], "schedule": sched,
                    "thread": t})
                res.violation({"code": "interleaving_dependent",
                               "cls": cf[t].cls},
                              f"three threads {[repr(c) for c in cf]}: under "
                              f"schedule {sched} thread {t} does not emit its "
                              "baseline stream", rp)
        res.counters["interleaved_executions_three_threads"] = ntri
    res.counters["interleaved_executions"] = nexec_tot
    res.counters["preemption_bound"] = P
    # vacuity: pairs that can collide at all.  Decided from the parameters
    # alone (two members of one algorithm family whose sub-problem ranges
    # overlap), so that it says something about *this alphabet* and never
    # about how the implementation happens to keep its tables; the number of
    # pairs that share keys of the memo tables found by introspection is
    # reported as well, for information only.
    fam = [family(full[i]) for i in range(ns)]
    collide = sum(1 for i, j in pairs if i != j and fam[i] == fam[j])
    keysets = [memo_keys(full[i], lens[i]) for i in range(ns)]
    share = sum(1 for i, j in pairs if i != j and keysets[i] & keysets[j])
    res.counters["ordered_pairs"] = len(pairs)
    res.counters["pairs_same_family"] = collide
    res.counters["pairs_sharing_memo_keys"] = share
    if collide == 0:
        res.harness_error("vacuous: no pair of configurations of one "
                          "algorithm family in the sub-alphabet")
    share = max(share, collide)

    # ------------------------------------------------------------ (c)
    def worker_c(idxs):
        bad = []
        n = 0
        for y in idxs:
            cfg, L, b = full[y], lens[y], base[y]
            placements = [((p, w),) for p in range(L + 2)
                          for w in I.OBSERVERS]
            placements += [((p, "*"),) for p in range(L + 2)]
            placements += [((p, "*"), (q, "*")) for p in range(L + 2)
                           for q in range(p, L + 2)]
            for pl in placements:
                clear_all_memos()
                t = I.Thread(cfg, L)
                at = {}
                for p, w in pl:
                    at.setdefault(p, []).append(w)
                pos = 0
                err = None
                while True:
                    for w in at.get(pos, ()):
                        if t.obj is None:
                            continue
                        try:
                            for ww in (I.OBSERVERS if w == "*" else [w]):
                                I.observe(t.obj, ww)
                        except Exception as e:  # noqa: BLE001
                            err = f"observer {w} raised {e!r}"
                    if not t.enabled():
                        break
                    t.step()
                    pos += 1
                n += 1
                if err or t.stream != b["stream"] or t.error != b["error"]:
                    bad.append((y, [list(x) for x in pl], err))
        return n, bad
    nobs = 0
    for n, bad in common.pmap(worker_c, len(full)):
        nobs += n
        for y, pl, err in bad:
            rp = common.write_replay(prop, "observer", {
                "property": prop, "kind": "c15_observer", "observed": y,
                "placement": pl})
            res.violation({"code": "observer_dependent", "cls": full[y].cls},
                          f"{full[y]!r}: observer placement {pl} changes the "
                          f"stream ({err})", rp)
    res.add(evaluations=nobs, states=nobs, transitions=nobs,
            traces_validated_against_impl=nobs)
    res.counters["observer_placements"] = nobs

    # ------------------------------------------------------------ (d)
    # crowds: the observed object takes i actions, then K further objects of
    # the same configuration are built and take one action each, then the
    # observed one continues; the first and the last crowd member are run to
    # the end as well.  (A bounded cache of live per-object state shows only
    # when enough objects are alive at once.)
    KS = (1, 2, 5, 17, 64, 127, 128, 129, 200, 300) if tier == "quick" else \
        (1, 2, 3, 5, 9, 17, 33, 64, 65, 127, 128, 129, 200, 256, 257, 300,
         512, 513, 1024, 1025)
    crowd_cfgs = list(range(ns)) + [i for i, c in enumerate(full)
                                    if c.cls in ("SingleMemory",
                                                 "SingleDiskMove",
                                                 "NoneSchedule")]
    ctasks = [(y, pos, K) for y in crowd_cfgs for pos in ("early", "middle")
              for K in KS]

    def worker_d(idxs):
        bad = []
        n = 0
        for ti in idxs:
            y, pos, K = ctasks[ti]
            cfg, L, b = full[y], lens[y], base[y]
            clear_all_memos()
            obs_t = I.Thread(cfg, L)
            obs_t.step()
            for _ in range(1 if pos == "early" else max(1, L // 2)):
                if obs_t.enabled():
                    obs_t.step()
            crowd = []
            for _ in range(K):
                t = I.Thread(cfg, L)
                t.step()
                if t.enabled():
                    t.step()
                crowd.append(t)
            while obs_t.enabled():
                obs_t.step()
            for t in (crowd[0], crowd[-1]):
                while t.enabled():
                    t.step()
            n += 1
            for who, t in (("observed", obs_t), ("first crowd member", crowd[0]),
                           ("last crowd member", crowd[-1])):
                if t.stream != b["stream"] or t.error != b["error"]:
                    k = next((i for i, (x, z) in
                              enumerate(zip(t.stream, b["stream"])) if x != z),
                             min(len(t.stream), len(b["stream"])))
                    bad.append((y, pos, K, who, k, t.stream[k:k + 1], t.error))
                    break
        return n, bad
    ncrowd = 0
    for n, bad in common.pmap(worker_d, len(ctasks)):
        ncrowd += n
        for y, pos, K, who, k, got, err in sorted(bad, key=lambda x: x[2]):
            rp = common.write_replay(prop, "crowd", {
                "property": prop, "kind": "c15_crowd", "observed": y,
                "position": pos, "K": K})
            res.violation({"code": "crowd_dependent", "cls": full[y].cls},
                          f"{full[y]!r}: with {K} other objects of the same "
                          f"configuration started after its {pos} action(s), "
                          f"the {who} emits {got} (error {err}) at action {k} "
                          "instead of its baseline stream", rp)
    res.add(evaluations=ncrowd, states=ncrowd, transitions=ncrowd,
            traces_validated_against_impl=3 * ncrowd)
    res.counters["crowd_histories"] = ncrowd
    res.bounds["crowd_sizes"] = list(KS)

    # ------------------------------------------------------------ (e)
    # aborted and preempted predecessors (vf/faults.py): every line of the
    # library executed by a victim run is a point where the run is aborted by
    # a BaseException (then the group is observed), or where another object
    # is built and driven to the end as by a thread switch (then the victim
    # finishes and the group is observed)
    from . import faults as F
    groups = F.alphabet(tier)
    fcfgs = []
    for g in groups:
        for c in g:
            if c.key() not in [x.key() for x in fcfgs]:
                fcfgs.append(c)
    fbase = dict(zip([c.key() for c in fcfgs], I.baselines(fcfgs)))
    for c in fcfgs:
        if fbase[c.key()]["error"]:
            res.harness_error(f"baseline of {c!r} raised "
                              f"{fbase[c.key()]['error']}")
    ftasks = F.tasks(tier)

    def worker_e(i):
        mode, gi, vi, obs = ftasks[i]
        g = groups[gi]
        oc = [g[x] for x in obs]
        o = F.explore_victim(g[vi], fbase[g[vi].key()], oc,
                             [fbase[c.key()] for c in oc], mode=mode)
        o["task"] = i
        return o
    npoints = {"abort": 0, "preempt": 0, "raise": 0, "raise_mem": 0}
    nfired = {"abort": 0, "preempt": 0, "raise": 0, "raise_mem": 0}
    nfexec = 0
    for o in common.pmap_dynamic(worker_e, list(range(len(ftasks)))):
        mode, gi, vi, obs = ftasks[o["task"]]
        g = groups[gi]
        npoints[mode] += o["points"]
        nfired[mode] += o["delivered"]
        nfexec += o["executions"]
        if o["capped"]:
            res.harness_error(f"abort points of {g[vi]!r} were capped")
        if o["delivered"] == 0:
            res.harness_error(f"vacuous: no {mode} point was reached in "
                              f"{g[vi]!r}")
        for k, j, msg in o["bad"][:3]:
            oc = [g[x] for x in obs]
            # confirm in a fresh interpreter (same execution, nothing else
            # in the process) before reporting
            m2 = F.fresh_once(g[vi], k, oc, mode)
            if m2 is None:
                res.harness_error(
                    f"{mode} of {g[vi]!r} at point {k}: mismatch in the "
                    f"worker ({msg}) not reproduced in a fresh interpreter")
                continue
            if isinstance(m2, str) and m2.startswith("HARNESS"):
                res.harness_error(m2)
                continue
            tag = {"abort": "aborted", "preempt": "preempted"}.get(
                mode, "exception_hit")
            rp = common.write_replay(prop, f"{tag}_predecessor", {
                "property": prop, "kind": "c15_fault", "mode": mode,
                "victim": g[vi].as_json(), "point": k,
                "observed": [c.as_json() for c in oc]})
            what = ("aborted by a BaseException" if mode == "abort" else
                    "hit by a RecursionError" if mode == "raise" else
                    "hit by a MemoryError" if mode == "raise_mem" else
                    f"preempted (the other thread runs {oc[0]!r} to the end)")
            res.violation({"code": f"{tag}_predecessor", "cls": g[vi].cls},
                          f"{g[vi]!r} {what} at library line event {k}; "
                          f"afterwards {m2}", rp)
    res.add(evaluations=nfexec, states=sum(npoints.values()),
            transitions=sum(npoints.values()),
            traces_validated_against_impl=nfexec)
    res.counters["abort_points"] = npoints["abort"]
    res.counters["aborts_delivered"] = nfired["abort"]
    res.counters["preemption_points"] = npoints["preempt"]
    res.counters["preemptions_delivered"] = nfired["preempt"]
    res.counters["exception_points"] = npoints["raise"] + npoints["raise_mem"]
    res.counters["fault_executions"] = nfexec
    res.bounds["fault_groups"] = len(groups)
    res.bounds["fault_victims"] = len(ftasks)

    # ------------------------------------------------------------ (f)
    # the same sequential histories in a process that promotes the
    # library's warnings to errors (-W error): what raises for an object
    # alone must raise for it after any predecessor, and vice versa.  Every
    # case runs in its own fresh interpreter; the baseline is taken under the
    # same filter.
    wl = [i for i, c in enumerate(full) if c.cls == "Mixed"][:4]
    for fam_rep in ("Multistage", "TwoLevel", "HRevolve", "Revolve",
                    "PeriodicDiskRevolve", "SingleDiskCopy"):
        wl.append(next(i for i, c in enumerate(full) if c.cls == fam_rep))
    wcases = [([(x, mode)], y) for x in wl for mode in ("construct", "end")
              for y in wl]
    nw = 0
    for (hist, y), m in zip(wcases, fresh_seq_many(
            wcases, {"VERIF_WARNINGS": "error"})):
        nw += 1
        if m is None:
            continue
        if isinstance(m, str) and m.startswith("HARNESS"):
            res.harness_error(f"warnings-as-errors history {hist} -> {y}: {m}")
            continue
        rp = common.write_replay(prop, "warnings_as_errors", {
            "property": prop, "kind": "c15_sequential_w",
            "history": [list(h) for h in hist], "observed": y})
        res.violation({"code": "history_dependent_under_W_error",
                       "cls": full[y].cls},
                      f"with the library's warnings promoted to errors: "
                      f"{full[y]!r} {m}", rp)
    res.add(evaluations=nw, states=nw, transitions=nw,
            traces_validated_against_impl=nw)
    res.counters["histories_under_warnings_as_errors"] = nw

    res.cov["distinct_nontrivial"] = share + nseq
    res.cov["rule"] = ("(a) all histories of length 1 (full alphabet x 3 modes) "
                       "and length 2 (sub-alphabet) before each observed "
                       "configuration; (b) all ordered pairs of the "
                       "sub-alphabet under every schedule with <= P "
                       "preemptions; (c) all placements of one observer call / "
                       "one or two observer bundles; (d) crowds; (e) every "
                       "library line of a victim run as abort point "
                       "(BaseException) and as preemption point (another "
                       "object built and driven to the end there), the "
                       "sibling group observed afterwards; memo tables are emptied "
                       "before every execution so that fill order is really "
                       "varied; non-trivial = sequential histories + ordered "
                       "pairs of one algorithm family (or sharing memo keys)")
    res.sample({"interleaving": {"threads": [repr(full[4]), repr(full[7])],
                                 "schedule": list(next(itertools.islice(
                                     I.schedules([lens[4] + 1, lens[7] + 1], P),
                                     5, None)))}})
    res.sample({"sequential": [f"{full[9]!r}:middle", f"{full[4]!r}:end",
                               "observe " + repr(full[6])]})
    res.assumptions = [
        "baseline = stream printed by a fresh interpreter that builds only "
        "that one object (PYTHONHASHSEED=0)",
        "concurrency = cooperative interleaving at action granularity (b) "
        "plus ONE thread switch at any library line, the other thread running "
        "to completion (e); finer OS-thread races (two or more switches "
        "inside one call) are not explored",
        f"preemption bound {P}; alphabets listed in vf/interleave.py"]
    return common.finish(res)


def replay(prop, payload):
    full, sub = I.alphabet()
    k = payload["kind"]
    if k == "c15_interleave":
        cfgs = [D.Config.from_json(c) for c in payload["cfgs"]]
        base = I.baselines(cfgs)
        r = I.fresh_run(cfgs, payload["lengths"], [payload["schedule"]])
        bad = any(list(r[t][0]) != base[t]["stream"]
                  for t in range(len(cfgs)))
    elif k == "c15_seq":
        m = fresh_seq_many([([tuple(h) for h in payload["history"]],
                             payload["observed"])])[0]
        print(m)
        bad = m is not None
    elif k == "c15_sequential_w":
        m = fresh_seq_many([([tuple(h) for h in payload["history"]],
                             payload["observed"])],
                           {"VERIF_WARNINGS": "error"})[0]
        print(m)
        bad = m is not None
    elif k == "c15_fault":
        from . import faults as F
        m = F.fresh_once(D.Config.from_json(payload["victim"]),
                         payload["point"],
                         [D.Config.from_json(c) for c in payload["observed"]],
                         payload["mode"])
        print(m)
        bad = m is not None
    elif k == "c15_crowd":
        y, pos, K = payload["observed"], payload["position"], payload["K"]
        cfg = full[y]
        b = I.baselines([cfg])[0]
        L = len(b["stream"])
        obs_t = I.Thread(cfg, L)
        obs_t.step()
        for _ in range(1 if pos == "early" else max(1, L // 2)):
            if obs_t.enabled():
                obs_t.step()
        crowd = []
        for _ in range(K):
            t = I.Thread(cfg, L)
            t.step()
            if t.enabled():
                t.step()
            crowd.append(t)
        while obs_t.enabled():
            obs_t.step()
        bad = obs_t.stream != b["stream"] or obs_t.error != b["error"]
        for t in (crowd[0], crowd[-1]):
            while t.enabled():
                t.step()
            bad = bad or t.stream != b["stream"]
        print("crowd", cfg, pos, K, "differs" if bad else "equal")
    else:
        print("re-run ./check C15 to re-evaluate observer placements")
        bad = False
    if bad:
        print(f"VIOLATION property={prop} replay=(replayed)")
        return 1
    return 0
