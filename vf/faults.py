"""E6 -- aborted-call explorer (exhaustive crash points of a predecessor).

C15 quantifies over "which other schedules were built or iterated before".
A predecessor need not have run to completion: an interactive user presses
Ctrl-C inside a long constructor, a test runner's timeout fires, a worker is
told to exit -- a BaseException travels through the library's frames at an
arbitrary line and the process goes on to build further schedules.  Whatever
the aborted call left behind in process-global state (a table published
before it was filled, a half-updated cache) must not reach a later object.

Alphabet: one *victim* configuration (constructed, then driven to the end),
one *abort point* k = index of a line event executed inside the library's own
source files during that victim run, one *observed* configuration built and
driven afterwards.  Exhaustive: every k in 0..P-1 (P = number of library line
events of the complete victim run) for every victim of the alphabet and every
observed sibling.  The abort is injected by a sys.settrace hook that raises
`Abort` (a BaseException, like KeyboardInterrupt/SystemExit) at the k-th line
event; raising from a trace function makes the exception appear in the traced
frame and switches tracing off, so everything after the abort runs untraced.

Oracle: the observed object's stream equals its fresh-interpreter baseline.
Memo tables the harness can find are emptied before each execution, so that
the victim really computes what it would in a fresh process.
"""
import os
import sys

from . import common
from . import driver as D
from . import interleave as I

API = D.API


class Abort(BaseException):
    pass


def _pkg_dir():
    return os.path.join(os.path.realpath(common.REPO), "checkpoint_schedules") \
        + os.sep


def victim_run(cfg, length):
    """Construct and request `length` actions (the length of the fresh-
    interpreter baseline; environment rule of I.Thread)."""
    t = I.Thread(cfg, length)
    t.step()
    while t.enabled():
        t.step()
    return t


def traced(fn, k, at_point=None, exc=None):
    """Run fn() with a line counter over library frames.  At line event
    number k (k=None: only count): raise Abort (at_point=None), or raise
    exc() (an ordinary Exception the interpreter can produce anywhere, e.g.
    RecursionError / MemoryError, which library code may catch), or call
    at_point() -- a nested, untraced execution that stands for a thread
    switch at that line -- and carry on.  Returns (events_counted, fired)."""
    pkg = _pkg_dir()
    count = [0]
    fired = [False]

    def local(frame, event, arg):
        if event == "line":
            if count[0] == k and not fired[0]:
                count[0] += 1
                fired[0] = True
                if exc is not None:
                    raise exc("injected by the harness")
                if at_point is None:
                    raise Abort()
                sys.settrace(None)
                try:
                    at_point()
                finally:
                    sys.settrace(glob)
                return local
            count[0] += 1
        return local

    def glob(frame, event, arg):
        fn_ = frame.f_code.co_filename
        if fn_.startswith(pkg):
            return local
        return None
    old = sys.gettrace()
    old_hook = sys.unraisablehook
    # an abort that lands inside a __del__ is reported by the interpreter as
    # "Exception ignored in ..." and dropped, like a KeyboardInterrupt would be
    sys.unraisablehook = lambda *a: None
    sys.settrace(glob)
    try:
        fn()
    except Abort:
        pass
    finally:
        sys.settrace(old)
        sys.unraisablehook = old_hook
    return count[0], fired[0]


def count_points(cfg, length):
    from .props_opt import clear_all_memos
    clear_all_memos()
    n, _ = traced(lambda: victim_run(cfg, length), None)
    return n


def stream_of(cfg, length):
    t = victim_run(cfg, length)
    return t.stream, t.error


def one(victim, vlen, k, observed_cfgs, olens, mode="abort"):
    """mode 'abort': abort the victim at point k, then run the observed
    configurations.  mode 'preempt': at point k of the victim run the first
    observed configuration to completion (a thread switch at that line, the
    other thread running undisturbed), let the victim finish, then run the
    remaining observed configurations.  Returns (list of (stream, error) per
    observed configuration [+ the victim's own in preempt mode], fired)."""
    from .props_opt import clear_all_memos
    clear_all_memos()
    if mode == "abort":
        _n, fired = traced(lambda: victim_run(victim, vlen), k)
        return [stream_of(c, n) for c, n in zip(observed_cfgs, olens)], fired
    if mode.startswith("raise"):
        # an ordinary exception of the interpreter at that line.  If it
        # propagates (I.Thread records it) the call is simply aborted; if the
        # library swallows it and carries on, the victim's own stream must
        # still be its baseline (a fallback path may not change the schedule)
        exc = {"raise": RecursionError, "raise_mem": MemoryError}[mode]
        vt = {}

        def run_victim_r():
            vt["t"] = victim_run(victim, vlen)
        _n, fired = traced(run_victim_r, k, exc=exc)
        outs = [stream_of(c, n) for c, n in zip(observed_cfgs, olens)]
        t = vt.get("t")
        if t is not None and t.error is None and fired:
            outs.append((t.stream, None))      # swallowed
        else:
            outs.append((None, "propagated"))
        return outs, fired
    box = {}

    def other():
        with_hook = sys.unraisablehook
        try:
            box["o"] = stream_of(observed_cfgs[0], olens[0])
        finally:
            sys.unraisablehook = with_hook
    vt = {}

    def run_victim():
        vt["t"] = victim_run(victim, vlen)
    _n, fired = traced(run_victim, k, at_point=other)
    outs = [box.get("o", (None, "not run"))]
    outs += [stream_of(c, n) for c, n in zip(observed_cfgs[1:], olens[1:])]
    t = vt.get("t")
    outs.append((t.stream, t.error) if t is not None else (None, "not run"))
    return outs, fired


def alphabet(tier):
    """Groups of sibling configurations (one parameter apart, incl. a larger
    n: what a table keyed on too little, published before it is filled, or
    appended to out of order would confuse).  Every member of a group is a
    victim; the members of its group are what is observed afterwards."""
    C = D.Config
    dflt = (1, 1, 2, 2)
    groups = [
        [C("Multistage", (1, 1, "revolve"), 4), C("Multistage", (1, 1, "maximum"), 4),
         C("Multistage", (1, 1, "revolve"), 6)],
        [C("Multistage", (2, 1, "maximum"), 7), C("Multistage", (1, 2, "maximum"), 7),
         C("Multistage", (2, 1, "revolve"), 7), C("Multistage", (2, 1, "maximum"), 9)],
        [C("Multistage", (0, 2, "maximum"), 6), C("Multistage", (2, 0, "maximum"), 6)],
        [C("Mixed", (2, "RAM"), 7), C("Mixed", (2, "DISK"), 7), C("Mixed", (3, "RAM"), 7),
         C("Mixed", (2, "RAM"), 9)],
        [C("Mixed", (1, "DISK"), 5), C("Mixed", (2, "DISK"), 5), C("Mixed", (2, "DISK"), 6)],
        [C("TwoLevel", (3, 1, "RAM", "maximum"), 7), C("TwoLevel", (3, 2, "RAM", "maximum"), 7),
         C("TwoLevel", (3, 1, "DISK", "revolve"), 7), C("TwoLevel", (4, 1, "RAM", "maximum"), 9)],
        [C("TwoLevel", (4, 2, "DISK", "maximum"), 9, 2), C("TwoLevel", (4, 2, "RAM", "maximum"), 9, 2)],
        [C("Revolve", (2,) + dflt, 5), C("Revolve", (2, 1, 3, 2, 2), 5), C("Revolve", (1,) + dflt, 5),
         C("Revolve", (2,) + dflt, 8), C("DiskRevolve", (2,) + dflt, 5)],
        [C("DiskRevolve", (1,) + dflt, 6), C("DiskRevolve", (1, 1, 1, 0.5, 0.5), 6),
         C("Revolve", (1,) + dflt, 6), C("PeriodicDiskRevolve", (1,) + dflt, 6)],
        [C("PeriodicDiskRevolve", (1,) + dflt, 6), C("PeriodicDiskRevolve", (1, 3, 1, 2, 2), 6),
         C("PeriodicDiskRevolve", (2,) + dflt, 6)],
        [C("HRevolve", (1, 1) + dflt, 6), C("HRevolve", (1, 1, 1, 1, 0, 0), 6),
         C("HRevolve", (1, 2) + dflt, 6), C("HRevolve", (1, 1) + dflt, 7)],
        [C("SingleMemory", (), 3, 2), C("SingleDiskCopy", (), 3, 2), C("SingleDiskMove", (), 3)],
    ]
    if tier == "thorough":
        groups += [
            [C("Multistage", (2, 2, "maximum"), 12), C("Multistage", (3, 1, "maximum"), 12),
             C("Multistage", (1, 3, "revolve"), 12), C("Multistage", (2, 2, "maximum"), 14)],
            [C("Mixed", (3, "RAM"), 12), C("Mixed", (4, "DISK"), 12), C("Mixed", (3, "RAM"), 14)],
            [C("HRevolve", (2, 1) + dflt, 8), C("HRevolve", (1, 2, 1, 2, 0.5, 0.25), 8)],
            [C("Revolve", (2,) + dflt, 7), C("Revolve", (2, 1, 3, 2, 2), 7), C("DiskRevolve", (2,) + dflt, 7),
             C("PeriodicDiskRevolve", (2,) + dflt, 8), C("DiskRevolve", (1,) + dflt, 8)],
            [C("Revolve", (3,) + dflt, 8), C("Revolve", (2, 2, 1, 2, 2), 8),
             C("DiskRevolve", (3,) + dflt, 8)],
            [C("PeriodicDiskRevolve", (2, 1, 1, 1, 1), 9), C("PeriodicDiskRevolve", (2,) + dflt, 9)],
            [C("DiskRevolve", (2, 1, 1, 1, 1), 8), C("DiskRevolve", (1, 2, 1, 2, 2), 8)],
            [C("TwoLevel", (5, 2, "RAM", "revolve"), 11), C("TwoLevel", (5, 3, "RAM", "revolve"), 11)],
        ]
    return groups


def tasks(tier):
    """(mode, group index, victim index, [observed indices]) -- the unit of
    parallel work.  abort: everything in the group is observed afterwards.
    preempt: the switched-to 'thread' runs the victim's own configuration
    (and, thorough, for the first member also its next sibling); afterwards
    the whole group is observed.  Quick tier: the first two members of each group are preempted,
    thorough: all."""
    out = []
    for gi, g in enumerate(alphabet(tier)):
        for vi in range(len(g)):
            out.append(("abort", gi, vi, list(range(len(g)))))
            if vi == 0 or (tier == "thorough" and vi < 2):
                out.append(("raise", gi, vi, list(range(len(g)))))
            if vi == 0 and tier == "thorough" and gi < 8:
                out.append(("raise_mem", gi, vi, list(range(len(g)))))
            if tier != "thorough" and vi >= 2:
                continue
            # two threads doing the same thing is the canonical race (equal
            # keys, duplicated appends); a sibling as the other thread adds
            # the key-confusion cases
            others = [vi]
            if tier == "thorough" and vi == 0:
                others.append(1 % len(g))
            for oi in others:
                rest = list(range(len(g)))
                out.append(("preempt", gi, vi, [oi] + rest))
    return out


def explore_victim(victim, vbase, observed_cfgs, baselines, cap=None,
                   mode="abort"):
    """All abort / preemption points of one victim.  Returns dict(points,
    delivered, executions, capped, bad=[(k, observed_index, message)]); in
    preempt mode the victim's own stream is checked too (index = number of
    observed configurations)."""
    vlen = len(vbase["stream"])
    olens = [len(b["stream"]) for b in baselines]
    if mode == "preempt" or mode.startswith("raise"):
        baselines = list(baselines) + [vbase]
    P = count_points(victim, vlen)
    ks = range(P)
    capped = False
    if cap is not None and P > cap:
        # never silently: reported as a cap by the caller
        step = -(-P // cap)
        ks = range(0, P, step)
        capped = True
    bad = []
    delivered = 0
    execs = 0
    for k in ks:
        outs, aborted = one(victim, vlen, k, observed_cfgs, olens, mode)
        delivered += bool(aborted)
        for j, ((stream, err), b) in enumerate(zip(outs, baselines)):
            execs += 1
            if stream is None:
                if aborted and mode == "preempt":
                    bad.append((k, j, f"did not run: {err}"))
                continue
            if stream != b["stream"] or err != b["error"]:
                i = next((x for x, (p, q) in
                          enumerate(zip(stream, b["stream"])) if p != q),
                         min(len(stream), len(b["stream"])))
                bad.append((k, j, f"action {i} is {stream[i:i + 1]} (error "
                                  f"{err}), fresh interpreter gives "
                                  f"{b['stream'][i:i + 1]}"))
                if len(bad) >= 20:
                    return {"points": P, "delivered": delivered,
                            "executions": execs, "capped": capped, "bad": bad}
    return {"points": P, "delivered": delivered, "executions": execs,
            "capped": capped, "bad": bad}


def once(victim_json, k, observed_json, mode="abort"):
    """One execution in this interpreter (used in a fresh process to confirm
    a finding and by --replay).  observed_json: list of configurations.
    Returns the first mismatch message or None."""
    victim = D.Config.from_json(victim_json)
    obs = [D.Config.from_json(o) for o in observed_json]
    bl = I.baselines([victim] + obs)
    vb, base = bl[0], bl[1:]
    outs, _ab = one(victim, len(vb["stream"]), k, obs,
                    [len(b["stream"]) for b in base], mode)
    if mode == "preempt" or mode.startswith("raise"):
        base = base + [vb]
    names = [repr(o) for o in obs] + [repr(victim) + " (the disturbed one)"]
    for (stream, err), b, nm in zip(outs, base, names):
        if stream is None:
            continue
        if stream != b["stream"] or err != b["error"]:
            i = next((x for x, (p, q) in enumerate(zip(stream, b["stream"]))
                      if p != q), min(len(stream), len(b["stream"])))
            return (f"{nm}: action {i} is {stream[i:i + 1]} (error {err}), "
                    f"fresh interpreter gives {b['stream'][i:i + 1]}")
    return None


def fresh_once(victim, k, observed, mode="abort"):
    """`once` in a fresh interpreter (observed: list of configurations)."""
    import json
    import subprocess
    code = ("import sys, json; sys.path.insert(0, %r); "
            "from vf import faults as F; a = json.loads(sys.argv[1]); "
            "print('FAULT ' + json.dumps(F.once(a[0], a[1], a[2], a[3])))"
            % common.VERIF_DIR)
    env = dict(os.environ, PYTHONHASHSEED="0", VERIF_REPO=common.REPO)
    p = subprocess.run([sys.executable, "-c", code,
                        json.dumps([victim.as_json(), k,
                                    [o.as_json() for o in observed], mode])],
                       capture_output=True, text=True, env=env, timeout=600)
    line = [x for x in p.stdout.splitlines() if x.startswith("FAULT ")]
    if not line:
        return f"HARNESS: {p.stderr[-300:]}"
    return json.loads(line[-1][6:])
