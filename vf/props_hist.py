"""C10 (finalize protocol) and C09 (conclusion / repetition / exhaustion flags):
API-history exploration (E4); C09 additionally runs the stream box with
1..K adjoint passes (E2)."""
from . import common
from . import driver as D
from . import history as Hh

DEPTH = {"quick": 10, "thorough": 20}


def _explore_task(task):
    cfg, H = task
    o = Hh.explore(cfg, H)
    o["cfg"] = cfg.as_json()
    return o


def run_histories(res, prop, tier):
    H = common.bound("HIST_DEPTH", DEPTH[tier])
    objs = Hh.spec_objects(tier)
    res.bounds["history_depth"] = H
    res.bounds["objects"] = len(objs)
    res.bounds["finalize_alphabet_example"] = Hh.k_alphabet(objs[-1])
    # biggest first
    order = sorted(range(len(objs)),
                   key=lambda i: -(objs[i].params[0]
                                   if objs[i].cls == "TwoLevel" else 0))
    outs = common.pmap_dynamic(_explore_task, [(objs[i], H) for i in order])
    nontriv = 0
    outcome_tot = {}
    for o in outs:
        cfg = D.Config.from_json(o["cfg"])
        res.add(states=o["states"], transitions=o["transitions"],
                evaluations=o["transitions"],
                traces_validated_against_impl=o["states"])
        res.count("continuation_comparisons", o["continuations"])
        for k, v in o["outcomes"].items():
            outcome_tot[k] = outcome_tot.get(k, 0) + v
        for props, code, msg, hist in o["findings"]:
            if prop not in props:
                continue
            key = {"cls": cfg.cls, "code": code}
            rp = common.write_replay(prop, f"{cfg.cls}_{code}", {
                "property": prop, "kind": "history", "config": cfg.as_json(),
                "history": hist, "code": code, "msg": msg})
            res.violation(key, f"{cfg!r} history {hist}: [{code}] {msg}", rp)
    res.counters["outcomes"] = outcome_tot
    nontriv = sum(v for k, v in outcome_tot.items()
                  if k in ("fin:ok", "fin:RuntimeError", "fin:ValueError"))
    for k in ("fin:ok", "fin:RuntimeError", "fin:ValueError", "next:action",
              "next:stop"):
        if outcome_tot.get(k, 0) == 0:
            res.harness_error(f"vacuous: no transition with outcome {k}")
    res.sample({"object": outs[0]["cfg"], "a_history_reaching_a_new_state":
                outs[0]["sample"]})
    return nontriv


def small_histories(prop, tier):
    """The API-history exploration of a reduced object set (everything but
    Mixed, whose numba warning raises there on the unchanged tree), depth 6;
    run in a subprocess whose warning filter promotes the library's warnings
    to errors.  Returns the findings tagged `prop` as JSON-able tuples."""
    objs = [o for o in Hh.spec_objects("quick")
            if o.cls != "Mixed" and
            not (o.cls == "TwoLevel" and o.params[0] > 3)]
    out = []
    tot = [0, 0]
    for o in objs:
        r = Hh.explore(o, 6)
        tot[0] += r["states"]
        tot[1] += r["transitions"]
        for props, code, msg, hist in r["findings"]:
            # that a Warning surfaces as an exception is what the user of
            # such a process asked for; what must not happen is that the
            # call has taken effect nevertheless, or changes what follows
            if prop in props and code in (
                    "rejected_finalize_changes_state",
                    "noop_finalize_changes_state", "finalize_changes_stream"):
                out.append([o.as_json(), code, msg, hist])
    return {"states": tot[0], "transitions": tot[1], "findings": out[:30],
            "objects": len(objs)}


def warnings_as_errors_pass(res, prop, tier):
    """C10 in a process that runs with -W error for the library's warnings:
    a call the protocol accepts must not raise a Warning, least of all after
    it has changed the state."""
    import json
    import os
    import subprocess
    import sys
    code = ("import sys, json; sys.path.insert(0, %r); "
            "from vf import props_hist as P; "
            "print('WERR ' + json.dumps(P.small_histories(%r, %r)))"
            % (common.VERIF_DIR, prop, tier))
    env = dict(os.environ, PYTHONHASHSEED="0", VERIF_REPO=common.REPO,
               VERIF_WARNINGS="error")
    p = subprocess.run([sys.executable, "-c", code], env=env, text=True,
                       capture_output=True, timeout=1800)
    line = [x for x in p.stdout.splitlines() if x.startswith("WERR ")]
    if not line:
        res.harness_error(f"warnings-as-errors pass failed: {p.stderr[-300:]}")
        return
    o = json.loads(line[-1][5:])
    res.add(states=o["states"], transitions=o["transitions"],
            evaluations=o["transitions"],
            traces_validated_against_impl=o["states"])
    res.counters["states_under_warnings_as_errors"] = o["states"]
    for cj, code_, msg, hist in o["findings"]:
        cfg = D.Config.from_json(cj)
        rp = common.write_replay(prop, f"{cfg.cls}_{code_}_W_error", {
            "property": prop, "kind": "history", "config": cj,
            "history": hist, "code": code_, "msg": msg,
            "warnings": "error"})
        res.violation({"cls": cfg.cls, "code": code_ + "_W_error"},
                      f"with the library's warnings promoted to errors: "
                      f"{cfg!r} history {hist}: [{code_}] {msg}", rp)


def check_c10(prop, tier):
    res = common.Result(prop, tier)
    nontriv = run_histories(res, prop, tier)
    warnings_as_errors_pass(res, prop, tier)
    res.cov["distinct_nontrivial"] = nontriv
    res.cov["rule"] = ("BFS over all next()/finalize(k) histories up to the "
                       "depth bound on real objects, states merged on a "
                       "canonical key of the live generator frame; "
                       "non-trivial = finalize transitions (accepted, "
                       "rejected, no-op)")
    res.assumptions = [
        "canonical key = public counters + instance attributes + generator "
        "frame (instruction offset, locals); equal keys have equal futures",
        "valid finalisation points for every N (incl. partial TwoLevel "
        "periods) are additionally driven through M by the stream checks"]
    return common.finish(res)


def check_c09(prop, tier):
    from . import props_stream
    res = common.Result(prop, tier)
    # ---- stream part: box with 1..K passes, flags after every action
    N, deep, _large = props_stream.box_bounds(tier)
    cfgs = props_stream.full_box(tier)
    res.bounds.update({"N_max": N, "N_deep_layer": deep,
                       "configs": len(cfgs),
                       "passes_max": 3 if tier == "quick" else 5})
    out = props_stream.merge_orders(
        D.run_box(cfgs, props_stream.make_reducer(prop), orders=2))
    nontriv = 0
    for cfg, o in zip(cfgs, out):
        res.add(states=o["states"], transitions=o["transitions"],
                evaluations=1)
        if not o["built"]:
            continue
        res.add(traces_validated_against_impl=1)
        nontriv += bool(o["nontriv"])
        if o["fail"] is not None:
            f = o["fail"]
            key = {"cls": cfg.cls, "code": f["code"]}
            rp = common.write_replay(prop, f"{cfg.cls}_{f['code']}", {
                "property": prop, "kind": "stream", "config": cfg.as_json(),
                "failure": f})
            res.violation(key, f"{cfg!r}: [{f['code']}] {f['msg']} at action "
                               f"{f['index']} {f['action']}", rp)
    # ---- history part
    nontriv += run_histories(res, prop, tier)
    res.cov["distinct_nontrivial"] = nontriv
    res.cov["rule"] = ("(a) every configuration of the box with 1..K adjoint "
                       "passes and 3 post-exhaustion next() calls, flags read "
                       "before, after every action and after exhaustion; (b) "
                       "the flags in every state of the API-history graph; "
                       "non-trivial = " + props_stream.RULES["C09"])
    res.sample(props_stream.sample_of(
        D.Config("TwoLevel", (3, 1, "RAM", "maximum"), 7, 2)))
    res.assumptions = [
        "permitted number of adjoint calculations from the documented table "
        "(None: 0; offline classes and SingleDisk(move): 1; SingleMemory, "
        "SingleDisk(copy), TwoLevel: unbounded), not from is_exhausted"]
    return common.finish(res)


def check(prop, tier):
    return {"C09": check_c09, "C10": check_c10}[prop](prop, tier)


def replay(prop, payload):
    if payload["kind"] == "stream":
        from . import props_stream
        return props_stream.replay(prop, payload)
    import os
    if payload.get("warnings") == "error" and \
            os.environ.get("VERIF_WARNINGS") != "error":
        import json
        import subprocess
        import sys
        import tempfile
        with tempfile.NamedTemporaryFile("w", suffix=".json",
                                         delete=False) as f:
            json.dump(payload, f)
        r = subprocess.run([sys.executable,
                            os.path.join(common.VERIF_DIR, "check"), prop,
                            "--replay", f.name],
                           env=dict(os.environ, VERIF_WARNINGS="error"))
        os.unlink(f.name)
        return r.returncode
    cfg = D.Config.from_json(payload["config"])
    hist = [tuple(e) for e in payload["history"]]
    # re-explore just the prefix that leads to the finding
    o = Hh.explore_from(cfg, hist)
    bad = [f for f in o if prop in f[0]]
    for f in bad[:5]:
        print(f)
    if bad:
        print(f"VIOLATION property={prop} replay=(replayed)")
        return 1
    print("history replayed without a finding")
    return 0
