"""E3 -- explicit-state minimum-cost search over the state graph of M.

For fixed (N, B_RAM, B_DISK, cost vector, variant) every state reachable from
(fwd=0, r=0, no checkpoints) under the normalised action alphabet of DESIGN
section 3.3 is explored by uniform-cost search; the first settled state with
r = N gives the true minimum cost over *all* executable programs.

State  = (p, r, R, Dk)
  p  : forward position held in WORK (-1: none usable)
  r  : steps already reversed (adjoint position A = N - r)
  R  : sorted tuple of RAM entries,  Dk : sorted tuple of DISK entries
       entry e >= 0 : restart checkpoint of step e
       entry e <  0 : adjoint-dependency checkpoint of step -(e+1)  (mixed)

Normalised alphabet (why nothing is lost: DESIGN 3.3):
  step            p -> p+1                      cost uf       (p+1 <= A-1)
  store(st[,c])   step + restart checkpoint of p into st, into a free unit or
                  (only once r >= 1) replacing entry c     cost uf (+wd DISK)
  storedeps(st[,c]) mixed: step + deps checkpoint of step p  cost uf (+wd)
  reverse         p == A-1: Forward(p,p+1,deps->WORK); Reverse   cost uf+ub
  reversedeps     mixed: deps checkpoint of step A-1 present (and the forward
                  sweep complete): load + Reverse          cost ub (+rd)
  load(st,c)      r >= 1, restart entry c < A: p := c     cost 0 (+rd DISK)
                  read_once: a DISK load consumes the entry
Entries at steps >= A are dropped on reverse (they can never be used again).
"""
import heapq
from fractions import Fraction


def scale_costs(cv):
    """Exact integer costs: floats are dyadic rationals, so Fraction(x) is
    exact; multiply by the common denominator."""
    import math
    fr = [Fraction(x) for x in cv]
    den = 1
    for f in fr:
        den = den * f.denominator // math.gcd(den, f.denominator)
    return tuple(int(f * den) for f in fr), den


class Problem:
    def __init__(self, N, b_ram, b_disk, costs=(1, 0, 0, 0), mixed=False,
                 read_once=False, disk_write_fwd_only=False):
        self.N = N
        self.b_ram = b_ram
        self.b_disk = b_disk
        self.costs_in = tuple(costs)
        (self.uf, self.ub, self.wd, self.rd), self.den = scale_costs(costs)
        self.mixed = mixed
        self.read_once = read_once
        self.disk_write_fwd_only = disk_write_fwd_only

    def describe(self):
        return {"N": self.N, "b_ram": self.b_ram, "b_disk": self.b_disk,
                "costs": list(self.costs_in), "mixed": self.mixed,
                "read_once": self.read_once,
                "disk_write_fwd_only": self.disk_write_fwd_only}


def _ins(t, e):
    """insert e into sorted tuple t"""
    for i, x in enumerate(t):
        if x > e:
            return t[:i] + (e,) + t[i:]
    return t + (e,)


def _rem(t, e):
    i = t.index(e)
    return t[:i] + t[i + 1:]


def _step_of(e):
    return e if e >= 0 else -(e + 1)


def successors(P, s):
    """yield (cost, action, next_state)"""
    p, r, R, Dk = s
    N = P.N
    A = N - r
    uf, ub, wd, rd = P.uf, P.ub, P.wd, P.rd
    if p >= 0:
        if p + 1 <= A - 1:
            yield uf, ("step", p), (p + 1, r, R, Dk)
            # restart checkpoint of p
            for st, T, b, w in ((0, R, P.b_ram, 0), (1, Dk, P.b_disk, wd)):
                if b <= 0:
                    continue
                if st == 1 and P.disk_write_fwd_only and r >= 1:
                    continue
                clash = p in T or -(p + 1) in T
                if len(T) < b and not clash:
                    T2 = _ins(T, p)
                    yield uf + w, ("store", p, st, None), \
                        ((p + 1, r, T2, Dk) if st == 0 else (p + 1, r, R, T2))
                elif r >= 1:
                    for c in T:
                        if clash and _step_of(c) != p:
                            continue
                        T2 = _ins(_rem(T, c), p)
                        yield uf + w, ("store", p, st, c), \
                            ((p + 1, r, T2, Dk) if st == 0
                             else (p + 1, r, R, T2))
        if P.mixed and p + 1 <= A:
            e = -(p + 1)
            for st, T, b, w in ((0, R, P.b_ram, 0), (1, Dk, P.b_disk, wd)):
                if b <= 0:
                    continue
                clash = p in T or e in T
                if len(T) < b and not clash:
                    T2 = _ins(T, e)
                    yield uf + w, ("storedeps", p, st, None), \
                        ((p + 1, r, T2, Dk) if st == 0 else (p + 1, r, R, T2))
                elif r >= 1:
                    for c in T:
                        if clash and _step_of(c) != p:
                            continue
                        T2 = _ins(_rem(T, c), e)
                        yield uf + w, ("storedeps", p, st, c), \
                            ((p + 1, r, T2, Dk) if st == 0
                             else (p + 1, r, R, T2))
        if p == A - 1:
            A2 = A - 1
            R2 = tuple(e for e in R if _step_of(e) < A2)
            D2 = tuple(e for e in Dk if _step_of(e) < A2)
            yield uf + ub, ("reverse", p), (-1, r + 1, R2, D2)
    if P.mixed and A >= 1 and (r >= 1 or p == N):
        e = -A          # deps checkpoint of step A-1
        for st, T, rdc in ((0, R, 0), (1, Dk, rd)):
            if e in T:
                A2 = A - 1
                R2 = tuple(x for x in R if _step_of(x) < A2)
                D2 = tuple(x for x in Dk if _step_of(x) < A2)
                yield ub + rdc, ("reversedeps", A - 1, st), \
                    (-1, r + 1, R2, D2)
    if r >= 1:
        for c in R:
            if 0 <= c < A and c != p:
                yield 0, ("load", c, 0), (c, r, R, Dk)
        for c in Dk:
            if 0 <= c < A and (c != p or P.read_once):
                if P.read_once:
                    yield rd, ("load", c, 1), (c, r, R, _rem(Dk, c))
                else:
                    yield rd, ("load", c, 1), (c, r, R, Dk)


def solve(P, want_path=True, state_cap=None):
    """Uniform-cost search.  Returns dict(opt, states, transitions, path,
    capped)."""
    start = (0, 0, (), ())
    dist = {start: 0}
    parent = {}
    heap = [(0, 0, start)]
    settled = 0
    trans = 0
    tick = 0
    done = set()
    goal = None
    N = P.N
    while heap:
        d, _, s = heapq.heappop(heap)
        if s in done:
            continue
        done.add(s)
        settled += 1
        if s[1] == N:
            goal = s
            break
        if state_cap is not None and settled > state_cap:
            return {"opt": None, "states": settled, "transitions": trans,
                    "path": None, "capped": True}
        for c, act, t in successors(P, s):
            trans += 1
            nd = d + c
            od = dist.get(t)
            if od is None or nd < od:
                dist[t] = nd
                if want_path:
                    parent[t] = (s, act)
                tick += 1
                heapq.heappush(heap, (nd, tick, t))
    if goal is None:
        return {"opt": None, "states": settled, "transitions": trans,
                "path": None, "capped": False}
    path = None
    if want_path:
        path = []
        s = goal
        while s != start:
            s, act = parent[s]
            path.append(act)
        path.reverse()
    return {"opt": Fraction(dist[goal], P.den), "states": settled,
            "transitions": trans, "path": path, "capped": False}


def witness_actions(P, path, API):
    """Re-emit a search path as real action objects of the library."""
    S = API.StorageType
    ST = {0: S.RAM, 1: S.DISK}
    N = P.N
    acts = []
    r = 0
    ended_forward = False
    held = {0: set(), 1: set()}      # entries currently stored

    def drop_stale():
        A2 = N - r
        for st in (0, 1):
            for e in sorted(held[st]):
                if _step_of(e) >= A2:
                    held[st].discard(e)
                    acts.append(API.Move(_step_of(e), ST[st], S.NONE))
    i = 0
    L = len(path)
    while i < L:
        a = path[i]
        k = a[0]
        if k in ("step", "store"):
            p0 = a[1]
            # coalesce the following plain steps
            j = i + 1
            q = p0 + 1
            while j < L and path[j][0] == "step" and path[j][1] == q:
                q += 1
                j += 1
            if k == "store":
                if a[3] is not None:
                    e = a[3]
                    held[a[2]].discard(e)
                    acts.append(API.Move(_step_of(e), ST[a[2]], S.NONE))
                held[a[2]].add(p0)
                acts.append(API.Forward(p0, q, True, False, ST[a[2]]))
            else:
                acts.append(API.Forward(p0, q, False, False, S.WORK))
            i = j
            continue
        if k == "storedeps":
            if a[3] is not None:
                held[a[2]].discard(a[3])
                acts.append(API.Move(_step_of(a[3]), ST[a[2]], S.NONE))
            held[a[2]].add(-(a[1] + 1))
            acts.append(API.Forward(a[1], a[1] + 1, False, True, ST[a[2]]))
        elif k == "reverse":
            p = a[1]
            acts.append(API.Forward(p, p + 1, False, True, S.WORK))
            if not ended_forward:
                acts.append(API.EndForward())
                ended_forward = True
            acts.append(API.Reverse(p + 1, p, True))
            r += 1
            drop_stale()
        elif k == "reversedeps":
            if not ended_forward:
                acts.append(API.EndForward())
                ended_forward = True
            held[a[2]].discard(-(a[1] + 1))
            acts.append(API.Move(a[1], ST[a[2]], S.WORK))
            acts.append(API.Reverse(a[1] + 1, a[1], True))
            r += 1
            drop_stale()
        elif k == "load":
            if P.read_once and a[2] == 1:
                held[1].discard(a[1])
                acts.append(API.Move(a[1], ST[a[2]], S.WORK))
            else:
                acts.append(API.Copy(a[1], ST[a[2]], S.WORK))
        else:
            raise ValueError(a)
        i += 1
    return acts


def validate_witness(P, path, API):
    """Replay the witness through the same machine M that accepts the
    library's streams.  Leftover checkpoints at the end are deleted first
    (the search does not charge for deletions).  Returns (ok, cost, codes)."""
    from .machine import Machine, ClassInfo
    acts = witness_actions(P, path, API)
    M = Machine(P.N, ClassInfo(P.b_ram, P.b_disk, 1), API)
    for a in acts:
        M.step(a, True)
    codes = [f.code for f in M.failures
             if f.code not in ("restart_data_short",)]
    relaxed = sum(1 for f in M.failures if f.code == "restart_data_short")
    cost = M.cost(*[Fraction(x) for x in P.costs_in])
    ok = (not codes) and M.r == P.N
    return ok, cost, codes, relaxed
