"""A faithful port of the reference executor of the repository's own test
(tests/test_validity.py: action_forward / action_reverse / action_copy /
action_move / action_end_forward / action_end_reverse and the per-action
assertions of the driver loop), used as a *differential self-check of M*:

    the suite's executor rejects a stream  ==>  M must reject it too.

(The converse is not required: M adds the clauses the property statements add
-- per-class budgets, storage clean at EndReverse, all passes.)  Like the
suite, this executor only follows the stream up to the first EndReverse.
"""


def suite_accepts(api, actions, n, limits, data_limit, sched_max_n_known):
    """actions: list of action objects; n: true number of steps;
    limits: {StorageType.RAM: int, StorageType.DISK: int} (None = unbounded);
    sched_max_n_known: list of bool, schedule.max_n known when the action
    was emitted.  Returns (ok, message)."""
    S = api.StorageType
    model_n = 0
    model_r = 0
    ics = set()
    data = set()
    snapshots = {S.RAM: {}, S.DISK: {}}

    def fail(i, a, msg):
        return False, f"action {i} {a!r}: {msg}"

    for i, a in enumerate(actions):
        known = sched_max_n_known[i]
        if isinstance(a, api.Forward):
            if not (model_n is not None and a.n0 == model_n):
                return fail(i, a, "does not start at the forward position")
            if known and not a.n1 <= n:
                return fail(i, a, "beyond the end after finalisation")
            if known and not a.n1 <= n - model_r:
                return fail(i, a, "beyond the adjoint position")
            n1 = min(a.n1, n)
            model_n = n1
            ics.clear()
            data.clear()
            cp_ics = set(range(a.n0, n1)) if a.write_ics else set()
            cp_data = set(range(a.n0, n1)) if a.write_adj_deps else set()
            if a.storage in (S.RAM, S.DISK):
                if a.n0 in snapshots[a.storage]:
                    return fail(i, a, "checkpoint exists")
                snapshots[a.storage][a.n0] = (set(cp_ics), set(cp_data))
            elif a.storage == S.WORK:
                ics.update(cp_ics)
                data.update(cp_data)
            elif a.storage == S.NONE:
                pass
            else:
                return fail(i, a, "unexpected storage")
            if len(ics) > 0:
                lo = min(min(ics), min(data)) if data else min(ics)
                if a.n0 != lo:
                    return fail(i, a, "n0 is not the first stored step")
            elif len(data) > 0 and a.n0 != min(data):
                return fail(i, a, "n0 is not the first stored step")
        elif isinstance(a, api.Reverse):
            if a.n1 != n - model_r:
                return fail(i, a, "does not start at the adjoint position")
            if not a.n0 < a.n1:
                return fail(i, a, "no step")
            if not data.issuperset(range(a.n0, a.n1)):
                return fail(i, a, "dependencies not stored")
            model_r += a.n1 - a.n0
            if a.clear_adj_deps:
                data.clear()
        elif isinstance(a, (api.Copy, api.Move)):
            if len(ics) != 0 or len(data) != 0:
                return fail(i, a, "data is currently stored")
            if a.from_storage not in snapshots or \
                    a.n not in snapshots[a.from_storage]:
                return fail(i, a, "checkpoint does not exist")
            if isinstance(a, api.Move):
                cp_ics, cp_data = snapshots[a.from_storage].pop(a.n)
            else:
                cp_ics, cp_data = snapshots[a.from_storage][a.n]
            if not (len(cp_ics) > 0 or len(cp_data) > 0):
                return fail(i, a, "empty checkpoint")
            if not a.n < n - model_r:
                return fail(i, a, "checkpoint not before the adjoint")
            if a.to_storage in (S.RAM, S.DISK):
                if a.n in snapshots[a.to_storage]:
                    return fail(i, a, "checkpoint exists")
                snapshots[a.to_storage][a.n] = (set(cp_ics), set(cp_data))
            elif a.to_storage == S.WORK:
                model_n = a.n if a.n in cp_ics else None
                ics.update(cp_ics)
                if model_n is not None and \
                        not ics.issuperset(range(model_n, n - model_r)):
                    return fail(i, a, "restart data does not reach the adjoint")
                data.update(cp_data)
            elif a.to_storage == S.NONE:
                pass
            else:
                return fail(i, a, "unexpected storage")
        elif isinstance(a, api.EndForward):
            if not (model_n is not None and model_n == n):
                return fail(i, a, "forward incomplete")
        elif isinstance(a, api.EndReverse):
            if model_r != n:
                return fail(i, a, "adjoint incomplete")
        else:
            return fail(i, a, "unexpected action")
        for st, lim in limits.items():
            if lim is not None and len(snapshots[st]) > lim:
                return fail(i, a, f"storage limit {st!r} exceeded")
        if min(1, len(ics)) + len(data) > data_limit:
            return fail(i, a, "data limit exceeded")
        if isinstance(a, api.EndReverse):
            break
    return True, ""
