"""C17 -- valid parameters always yield a schedule; invalid ones fail before
any action.  Exhaustive enumeration of a box around the domain boundary."""
import signal

from . import common
from . import driver as D

BOUNDS = {"quick": 12, "thorough": 18}
API = D.API

VALID, INVALID, EITHER = "valid", "invalid", "either"

COSTS = [(1, 1, 2, 2), (2, 1, 1, 5), (1, 3, 0, 0), (0.5, 1, 1.5, 0.25)]
RATIO_COSTS = [(1, 1, 500, 500), (1, 1, 8000, 8000), (1, 1, 14365, 0),
               (0.001, 0.002, 8.0, 8.0)]
STORAGES = ["RAM", "DISK", "WORK", "NONE"]


def classify(cfg):
    """Documented domain (DESIGN 3.1 'Readings'): max_n >= 1; at least one
    unit (RAM for the Revolve family) when max_n > 1; period >= 1; storage
    RAM or DISK.  Revolve family with max_n = 1 and no RAM unit: the property
    statement and the class docstring disagree -> either outcome accepted."""
    c, p, n = cfg.cls, cfg.params, cfg.N
    if c in ("SingleMemory", "SingleDiskCopy", "SingleDiskMove",
             "NoneSchedule"):
        return VALID if n >= 1 else INVALID
    if c == "Multistage":
        if n < 1:
            return INVALID
        if n > 1 and p[0] + p[1] < 1:
            return INVALID
        return VALID
    if c == "Mixed":
        if n < 1 or p[1] not in ("RAM", "DISK"):
            return INVALID
        if p[0] < min(1, n - 1):
            return INVALID
        return VALID
    if c == "TwoLevel":
        if p[0] < 1 or p[2] not in ("RAM", "DISK"):
            return INVALID
        return VALID
    if c in D.REVOLVE_FAMILY:
        if n < 1:
            return INVALID
        if p[0] < 1:
            return EITHER if n == 1 else INVALID
        return VALID
    raise ValueError(c)


def tuples(N):
    out = []
    for n in range(0, N + 1):
        for ram in range(0, n + 3):
            for disk in range(0, n + 3):
                for traj in ("maximum", "revolve"):
                    out.append(D.Config("Multistage", (ram, disk, traj), n))
        for s in range(0, n + 3):
            for st in STORAGES:
                out.append(D.Config("Mixed", (s, st), n))
        for ram in range(0, n + 3):
            for cv in COSTS:
                for c in ("Revolve", "DiskRevolve", "PeriodicDiskRevolve"):
                    out.append(D.Config(c, (ram,) + cv, n))
                for disk in range(0, min(n + 3, 5)):
                    out.append(D.Config("HRevolve", (ram, disk) + cv, n))
    # TwoLevel: period 0..N, binomial_snapshots 0..4, all storages; online N
    for period in range(0, N + 1):
        for bs in range(0, 5):
            for st in STORAGES:
                for traj in ("maximum", "revolve"):
                    for n in range(1, N + 1):
                        if period < 1 or st in ("WORK", "NONE"):
                            if n > 1:
                                continue   # construction fails; N irrelevant
                        out.append(D.Config("TwoLevel",
                                            (period, bs, st, traj), n, 2))
    # "more units than steps" taken to the extreme: practically unlimited unit
    # counts (the classes whose tables are sized by the unit count -- the
    # Revolve family -- are left out: there the pinned tree needs O(units)
    # memory as well)
    import sys
    for n in (1, 2, 5, 10):
        for big in (10 ** 6, 2 ** 62, sys.maxsize):
            for traj in ("maximum", "revolve"):
                out.append(D.Config("Multistage", (0, big, traj), n))
                out.append(D.Config("Multistage", (big, 0, traj), n))
                out.append(D.Config("Multistage", (big, big, traj), n))
                out.append(D.Config("Multistage", (2, big, traj), n))
            for st in ("RAM", "DISK"):
                out.append(D.Config("Mixed", (big, st), n))
                out.append(D.Config("TwoLevel", (3, big, st, "maximum"), n, 2))
    # disk much more expensive than a step ((wd+rd)/uf in the thousands and
    # beyond: the period search of PeriodicDiskRevolve then walks far out in
    # the binomial table -- 171! is where float factorials end)
    for n in (1, 2, 5, 9):
        for ram in (1, 2):
            for cv in RATIO_COSTS:
                for c in ("DiskRevolve", "PeriodicDiskRevolve"):
                    out.append(D.Config(c, (ram,) + cv, n))
                out.append(D.Config("HRevolve", (ram, 1) + cv, n))
    for n in range(1, N + 1):
        for c in ("SingleMemory", "SingleDiskCopy", "SingleDiskMove",
                  "NoneSchedule"):
            out.append(D.Config(c, (), n, 2 if c in D.REPEATABLE else 1))
    return out


def ascii_tuples():
    out = []
    d = (1, 1, 2, 2)
    for n in (1, 2, 5):
        out += [D.Config("Multistage", (1, 1, "maximum"), n),
                D.Config("Mixed", (1, "DISK"), n),
                D.Config("TwoLevel", (2, 1, "RAM", "maximum"), n, 2),
                D.Config("Revolve", (1,) + d, n),
                D.Config("DiskRevolve", (1,) + d, n),
                D.Config("PeriodicDiskRevolve", (1,) + d, n),
                D.Config("PeriodicDiskRevolve", (2, 3, 1, 1, 1), n),
                D.Config("HRevolve", (1, 1) + d, n),
                D.Config("SingleMemory", (), n, 2),
                D.Config("SingleDiskCopy", (), n, 2),
                D.Config("SingleDiskMove", (), n),
                D.Config("NoneSchedule", (), n)]
    return out


def ascii_run():
    """In a subprocess whose stdout can only encode ASCII and is really
    written to: whatever the library prints must not stop a valid tuple from
    yielding its schedule."""
    import json
    for i, cfg in enumerate(ascii_tuples()):
        run = D.drive(cfg, observers=False)
        print("ASCII " + json.dumps([i, run.construct_exc,
                                     run.stream_exc and list(run.stream_exc)]),
              flush=True)


def ascii_stdout_pass(res, prop):
    import json
    import os
    import subprocess
    import sys
    code = ("import sys; sys.path.insert(0, %r); "
            "from vf import props_c17 as P; P.ascii_run()" % common.VERIF_DIR)
    env = dict(os.environ, PYTHONHASHSEED="0", VERIF_REPO=common.REPO,
               PYTHONIOENCODING="ascii:strict", VERIF_STDOUT="real")
    env.pop("PYTHONUTF8", None)
    p = subprocess.run([sys.executable, "-X", "utf8=0", "-c", code], env=env,
                       capture_output=True, timeout=600)
    out = p.stdout.decode("ascii", "replace")
    rows = [json.loads(x[6:]) for x in out.splitlines()
            if x.startswith("ASCII ")]
    tuples_ = ascii_tuples()
    if len(rows) != len(tuples_):
        res.harness_error("ascii-stdout pass incomplete: "
                          f"{p.stderr.decode('ascii', 'replace')[-300:]}")
    res.add(evaluations=len(rows), states=len(rows), transitions=len(rows),
            traces_validated_against_impl=len(rows))
    res.counters["tuples_with_ascii_only_stdout"] = len(rows)
    for i, cexc, sexc in rows:
        if cexc or sexc:
            cfg = tuples_[i]
            rp = common.write_replay(prop, f"{cfg.cls}_ascii_stdout", {
                "property": prop, "kind": "c17_ascii", "index": i})
            res.violation({"cls": cfg.cls, "code": "fails_with_ascii_stdout"},
                          f"{cfg!r} (valid) with a stdout that only encodes "
                          f"ASCII (PYTHONIOENCODING=ascii): {cexc or sexc}", rp)


class _Timeout(Exception):
    pass


def _alarm(signum, frame):
    raise _Timeout()


def evaluate(cfg, limit=60.0):
    """-> (verdict, code, msg, n_actions, transitions)"""
    kind = classify(cfg)
    signal.signal(signal.SIGALRM, _alarm)
    signal.setitimer(signal.ITIMER_REAL, limit)
    try:
        if kind == INVALID and cfg.cls not in D.ONLINE and cfg.N < 1:
            # the driver cannot play an environment with N < 1: only
            # construction / first next() is attempted
            try:
                s = D.build(cfg)
            except Exception:  # noqa: BLE001
                return ("ok", "raises_at_construction", "", 0, 1)
            try:
                with common.quiet():
                    a = next(s)
            except StopIteration:
                return ("bad", "invalid_silently_empty",
                        "invalid tuple: constructed and next() gave "
                        "StopIteration without any error", 0, 1)
            except Exception:  # noqa: BLE001
                return ("ok", "raises_at_first_next", "", 0, 1)
            return ("bad", "invalid_emits_action",
                    f"invalid tuple emitted {a!r}", 1, 1)
        run = D.drive(cfg, observers=False)
    except _Timeout:
        return ("bad", "no_termination", f"no result within {limit}s", 0, 1)
    finally:
        signal.setitimer(signal.ITIMER_REAL, 0)
    M = run.machine
    nact = len(run.actions)
    tr = M.transitions if M else 1
    raised_early = run.construct_exc is not None or \
        (run.stream_exc is not None and run.stream_exc[0] == 0
         and run.stream_exc[1] != "StopIteration")
    c17 = [f for f in run.all_failures() if "C17" in f.props]
    complete = (M is not None and not c17 and run.stream_exc is None)
    if kind == VALID and run.construct_exc is None:
        # the same tuple given by documented keyword names
        try:
            kwobj = D.build_kw(cfg)
            with common.quiet():
                first = repr(next(kwobj))
            if run.actions and first != repr(run.actions[0]):
                return ("bad", "keyword_construction_differs",
                        f"keyword construction starts with {first}, "
                        f"positional with {run.actions[0]!r}", nact, tr)
        except Exception as e:  # noqa: BLE001
            return ("bad", "keyword_construction_raises",
                    f"valid tuple given by keyword names raised "
                    f"{type(e).__name__}: {e}", nact, tr)
    if kind == VALID:
        if run.construct_exc is not None:
            return ("bad", "valid_rejected_at_construction",
                    f"valid tuple raised {run.construct_exc}", 0, tr)
        if c17:
            f = c17[0]
            return ("bad", "valid_" + f.code, f.msg, nact, tr)
        if not complete:
            return ("bad", "valid_incomplete", "stream did not conclude",
                    nact, tr)
        return ("ok", "complete", "", nact, tr)
    if kind == INVALID:
        if raised_early:
            return ("ok", "raises_early", "", nact, tr)
        if run.stream_exc is not None and run.stream_exc[0] > 0:
            return ("bad", "invalid_raises_after_actions",
                    f"raised {run.stream_exc[1]} after {run.stream_exc[0]} "
                    f"action(s): {run.trace_repr()[:4]}", nact, tr)
        return ("bad", "invalid_accepted",
                f"invalid tuple produced {nact} action(s) without raising: "
                f"{run.trace_repr()[:4]}", nact, tr)
    # EITHER
    if raised_early or complete:
        return ("ok", "either", "", nact, tr)
    return ("bad", "either_raises_after_actions",
            f"{run.stream_exc} / {[f.code for f in c17]}", nact, tr)


def check(prop, tier):
    res = common.Result(prop, tier)
    N = common.bound("C17_N", BOUNDS[tier])
    cfgs = tuples(N)
    res.bounds = {"N_max": N, "tuples": len(cfgs)}

    def worker(idxs):
        return [(i, classify(cfgs[i]), evaluate(cfgs[i])) for i in idxs]
    parts = common.pmap(worker, len(cfgs))
    kinds = {VALID: 0, INVALID: 0, EITHER: 0}
    boundary = 0
    for part in parts:
        for i, kind, (verdict, code, msg, nact, tr) in part:
            cfg = cfgs[i]
            kinds[kind] += 1
            res.add(evaluations=1, transitions=tr, states=max(1, nact))
            if kind == VALID and verdict == "ok":
                res.add(traces_validated_against_impl=1)
            res.count(f"{kind}:{code}")
            if verdict == "bad":
                key = {"cls": cfg.cls, "code": code}
                rp = common.write_replay(prop, f"{cfg.cls}_{code}", {
                    "property": prop, "kind": "c17", "config": cfg.as_json(),
                    "classified": kind, "code": code, "msg": msg})
                res.violation(key, f"{cfg!r} ({kind}): [{code}] {msg}", rp)
    res.cov["distinct_nontrivial"] = kinds[INVALID] + kinds[EITHER] + \
        sum(1 for c in cfgs if classify(c) == VALID and
            (c.N == 1 or (c.cls in ("Multistage",) and sum(c.params[:2]) > c.N)
             or (c.cls == "Mixed" and c.params[0] > c.N)))
    res.cov["rule"] = ("all parameter tuples with n/period in 0..N, unit counts "
                       "0..n+2, all four StorageType members; non-trivial = "
                       "invalid tuples, and valid tuples at the boundary "
                       "(max_n = 1, more units than steps)")
    res.counters.update({"valid": kinds[VALID], "invalid": kinds[INVALID],
                         "either": kinds[EITHER]})
    s = common.seed()
    for k in range(3):
        c = cfgs[(s * 31 + k * 7717) % len(cfgs)]
        res.sample({"config": c.as_json(), "classified": classify(c),
                    "outcome": evaluate(c)[:3]})
    res.assumptions = [
        "documented domain as read in DESIGN 3.1; Revolve family with max_n=1 "
        "and 0 RAM units: either a complete stream or an early exception",
        "negative unit counts, non-positive costs and unknown trajectory "
        "strings are outside the enumerated box"]
    ascii_stdout_pass(res, prop)
    return common.finish(res)


def replay(prop, payload):
    if payload.get("kind") == "c17_ascii":
        res = common.Result(prop, "quick")
        ascii_stdout_pass(res, prop)
        for v in res.violations[:3]:
            print(v["detail"])
        if res.violations:
            print(f"VIOLATION property={prop} replay=(replayed)")
            return 1
        print("ascii-stdout pass replayed without a finding")
        return 0
    cfg = D.Config.from_json(payload["config"])
    out = evaluate(cfg)
    print(cfg, classify(cfg), out)
    if out[0] == "bad":
        print(f"VIOLATION property={prop} replay=(replayed)")
        return 1
    return 0
